//! Arbitrary-precision binary floating point (`Bf`, exact operations plus directed rounding)
//! and rigorous interval arithmetic on top of it (`Iv`).  Every `Iv` operation returns an
//! enclosure of the exact result: the lower end is rounded toward -inf, the upper end toward
//! +inf.  No operation here is "approximately right": anything that cannot be enclosed panics.

use crate::big::Dy;
use core::cmp::Ordering;

// ------------------------------------------------------------------------------------------
// little-endian natural numbers

fn trim(v: &mut Vec<u64>) {
    while let Some(&0) = v.last() {
        v.pop();
    }
}
fn nbits(v: &[u64]) -> u64 {
    match v.last() {
        None => 0,
        Some(&t) => 64 * (v.len() as u64 - 1) + (64 - t.leading_zeros() as u64),
    }
}
fn ncmp(a: &[u64], b: &[u64]) -> Ordering {
    if a.len() != b.len() {
        return a.len().cmp(&b.len());
    }
    for i in (0..a.len()).rev() {
        if a[i] != b[i] {
            return a[i].cmp(&b[i]);
        }
    }
    Ordering::Equal
}
fn nadd(a: &[u64], b: &[u64]) -> Vec<u64> {
    let (a, b) = if a.len() >= b.len() { (a, b) } else { (b, a) };
    let mut r = Vec::with_capacity(a.len() + 1);
    let mut c = 0u64;
    for i in 0..a.len() {
        let y = if i < b.len() { b[i] } else { 0 };
        let (s1, c1) = a[i].overflowing_add(y);
        let (s2, c2) = s1.overflowing_add(c);
        r.push(s2);
        c = c1 as u64 + c2 as u64;
    }
    if c != 0 {
        r.push(c);
    }
    r
}
/// a - b, requires a >= b
fn nsub(a: &[u64], b: &[u64]) -> Vec<u64> {
    let mut r = Vec::with_capacity(a.len());
    let mut c = 0u64;
    for i in 0..a.len() {
        let y = if i < b.len() { b[i] } else { 0 };
        let (s1, c1) = a[i].overflowing_sub(y);
        let (s2, c2) = s1.overflowing_sub(c);
        r.push(s2);
        c = c1 as u64 + c2 as u64;
    }
    assert!(c == 0, "nsub: negative result");
    trim(&mut r);
    r
}
fn nmul(a: &[u64], b: &[u64]) -> Vec<u64> {
    if a.is_empty() || b.is_empty() {
        return vec![];
    }
    let mut r = vec![0u64; a.len() + b.len()];
    for i in 0..a.len() {
        let x = a[i] as u128;
        if x == 0 {
            continue;
        }
        let mut c = 0u128;
        for j in 0..b.len() {
            let t = x * (b[j] as u128) + (r[i + j] as u128) + c;
            r[i + j] = t as u64;
            c = t >> 64;
        }
        r[i + b.len()] = c as u64;
    }
    trim(&mut r);
    r
}
fn nmul_small(a: &[u64], k: u64) -> Vec<u64> {
    if k == 0 || a.is_empty() {
        return vec![];
    }
    let mut r = Vec::with_capacity(a.len() + 1);
    let mut c = 0u128;
    for &x in a {
        let t = (x as u128) * (k as u128) + c;
        r.push(t as u64);
        c = t >> 64;
    }
    if c != 0 {
        r.push(c as u64);
    }
    r
}
fn nshl(a: &[u64], k: u64) -> Vec<u64> {
    if a.is_empty() {
        return vec![];
    }
    let q = (k / 64) as usize;
    let s = (k % 64) as u32;
    let mut r = vec![0u64; q];
    if s == 0 {
        r.extend_from_slice(a);
    } else {
        let mut prev = 0u64;
        for &x in a {
            r.push((x << s) | (prev >> (64 - s)));
            prev = x;
        }
        r.push(prev >> (64 - s));
    }
    trim(&mut r);
    r
}
/// (a >> k, any discarded bit set?)
fn nshr(a: &[u64], k: u64) -> (Vec<u64>, bool) {
    let q = (k / 64) as usize;
    let s = (k % 64) as u32;
    if q >= a.len() {
        return (vec![], a.iter().any(|&x| x != 0));
    }
    let mut sticky = a[..q].iter().any(|&x| x != 0);
    let mut r = Vec::with_capacity(a.len() - q);
    if s == 0 {
        r.extend_from_slice(&a[q..]);
    } else {
        sticky |= (a[q] & ((1u64 << s) - 1)) != 0;
        for i in q..a.len() {
            let hi = if i + 1 < a.len() { a[i + 1] } else { 0 };
            r.push((a[i] >> s) | (hi << (64 - s)));
        }
    }
    trim(&mut r);
    (r, sticky)
}
fn ndivrem_small(a: &[u64], d: u64) -> (Vec<u64>, u64) {
    assert!(d != 0);
    let mut q = vec![0u64; a.len()];
    let mut r = 0u128;
    for i in (0..a.len()).rev() {
        let cur = (r << 64) | a[i] as u128;
        q[i] = (cur / d as u128) as u64;
        r = cur % d as u128;
    }
    trim(&mut q);
    (q, r as u64)
}
/// Knuth algorithm D. Returns (quotient, remainder).
fn ndivrem(a: &[u64], b: &[u64]) -> (Vec<u64>, Vec<u64>) {
    assert!(!b.is_empty(), "division by zero");
    if ncmp(a, b) == Ordering::Less {
        return (vec![], a.to_vec());
    }
    if b.len() == 1 {
        let (q, r) = ndivrem_small(a, b[0]);
        return (q, if r == 0 { vec![] } else { vec![r] });
    }
    let n = b.len();
    let m = a.len() - n;
    let s = b[n - 1].leading_zeros() as u64;
    let vn = nshl(b, s);
    let mut un = nshl(a, s);
    un.resize(a.len() + 1, 0);
    let mut q = vec![0u64; m + 1];
    let base: u128 = 1u128 << 64;
    for j in (0..=m).rev() {
        let num = ((un[j + n] as u128) << 64) | un[j + n - 1] as u128;
        let mut qhat = num / vn[n - 1] as u128;
        let mut rhat = num % vn[n - 1] as u128;
        while qhat >= base || qhat * (vn[n - 2] as u128) > ((rhat << 64) | un[j + n - 2] as u128) {
            qhat -= 1;
            rhat += vn[n - 1] as u128;
            if rhat >= base {
                break;
            }
        }
        // multiply and subtract
        let mut borrow: i128 = 0;
        let mut carry: u128 = 0;
        for i in 0..n {
            let p = qhat * (vn[i] as u128) + carry;
            carry = p >> 64;
            let t = (un[i + j] as i128) - borrow - ((p as u64) as i128);
            un[i + j] = t as u64;
            borrow = if t < 0 { 1 } else { 0 };
        }
        let t = (un[j + n] as i128) - borrow - (carry as i128);
        un[j + n] = t as u64;
        if t < 0 {
            // add back
            qhat -= 1;
            let mut c = 0u128;
            for i in 0..n {
                let t = (un[i + j] as u128) + (vn[i] as u128) + c;
                un[i + j] = t as u64;
                c = t >> 64;
            }
            un[j + n] = (un[j + n] as u128 + c) as u64;
        }
        q[j] = qhat as u64;
    }
    trim(&mut q);
    un.truncate(n);
    let (r, _) = nshr(&un, s);
    (q, r)
}
/// floor(sqrt(a))
fn nsqrt(a: &[u64]) -> Vec<u64> {
    if a.is_empty() {
        return vec![];
    }
    let bits = nbits(a);
    // start from an over-estimate 2^ceil(bits/2) and iterate x <- (x + a/x)/2 (monotone decreasing)
    let mut x = nshl(&[1], (bits + 1) / 2);
    loop {
        let (q, _) = ndivrem(a, &x);
        let s = nadd(&x, &q);
        let (y, _) = nshr(&s, 1);
        if ncmp(&y, &x) != Ordering::Less {
            break;
        }
        x = y;
    }
    // x = floor(sqrt(a)); verify
    debug_assert!(ncmp(&nmul(&x, &x), a) != Ordering::Greater);
    x
}

// ------------------------------------------------------------------------------------------

#[derive(Clone, Copy, PartialEq, Eq, Debug)]
pub enum Dir {
    Down,
    Up,
}

/// (-1)^neg * m * 2^e, m a natural number (empty = zero)
#[derive(Clone, Debug)]
pub struct Bf {
    pub neg: bool,
    pub m: Vec<u64>,
    pub e: i64,
}

impl Bf {
    pub fn zero() -> Bf {
        Bf { neg: false, m: vec![], e: 0 }
    }
    pub fn is_zero(&self) -> bool {
        self.m.is_empty()
    }
    pub fn from_u64(v: u64) -> Bf {
        if v == 0 {
            Bf::zero()
        } else {
            Bf { neg: false, m: vec![v], e: 0 }
        }
    }
    pub fn from_i64(v: i64) -> Bf {
        let mut b = Bf::from_u64(v.unsigned_abs());
        b.neg = v < 0;
        b
    }
    pub fn from_f64(x: f64) -> Bf {
        assert!(x.is_finite());
        let (neg, m, e) = crate::big::decompose(x);
        if m == 0 {
            return Bf::zero();
        }
        Bf { neg, m: vec![m], e: e as i64 }
    }
    pub fn from_dy(d: &Dy) -> Bf {
        let (neg, limbs, exp) = d.to_limbs();
        let mut m = limbs;
        trim(&mut m);
        if m.is_empty() {
            return Bf::zero();
        }
        Bf { neg, m, e: exp }
    }
    pub fn from_dd(hi: f64, lo: f64) -> Bf {
        Bf::from_dy(&Dy::from_dd(hi, lo))
    }
    pub fn pow2(k: i64) -> Bf {
        Bf { neg: false, m: vec![1], e: k }
    }
    pub fn to_dy(&self) -> Dy {
        Dy::from_limbs(self.neg, &self.m, self.e)
    }
    pub fn sign(&self) -> i32 {
        if self.m.is_empty() {
            0
        } else if self.neg {
            -1
        } else {
            1
        }
    }
    pub fn neg(&self) -> Bf {
        let mut r = self.clone();
        if !r.m.is_empty() {
            r.neg = !r.neg;
        }
        r
    }
    pub fn abs(&self) -> Bf {
        let mut r = self.clone();
        r.neg = false;
        r
    }
    pub fn bits(&self) -> u64 {
        nbits(&self.m)
    }
    /// floor(log2 |self|); panics on zero
    pub fn msb(&self) -> i64 {
        assert!(!self.is_zero());
        self.e + self.bits() as i64 - 1
    }
    pub fn mul_pow2(&self, k: i64) -> Bf {
        let mut r = self.clone();
        if !r.m.is_empty() {
            r.e += k;
        }
        r
    }
    fn strip(mut self) -> Bf {
        // remove trailing zero limbs / bits to keep mantissas short
        if self.m.is_empty() {
            return Bf::zero();
        }
        let mut z = 0;
        while self.m[z] == 0 {
            z += 1;
        }
        if z > 0 {
            self.m.drain(..z);
            self.e += 64 * z as i64;
        }
        let tz = self.m[0].trailing_zeros() as u64;
        if tz > 0 {
            let (m, _) = nshr(&self.m, tz);
            self.m = m;
            self.e += tz as i64;
        }
        self
    }

    pub fn cmp_abs(&self, o: &Bf) -> Ordering {
        match (self.is_zero(), o.is_zero()) {
            (true, true) => return Ordering::Equal,
            (true, false) => return Ordering::Less,
            (false, true) => return Ordering::Greater,
            _ => {}
        }
        let (ma, mb) = (self.msb(), o.msb());
        if ma != mb {
            return ma.cmp(&mb);
        }
        // align
        let e = self.e.min(o.e);
        let a = nshl(&self.m, (self.e - e) as u64);
        let b = nshl(&o.m, (o.e - e) as u64);
        ncmp(&a, &b)
    }
    pub fn cmp(&self, o: &Bf) -> Ordering {
        match (self.sign(), o.sign()) {
            (a, b) if a != b => a.cmp(&b),
            (0, _) => Ordering::Equal,
            (1, _) => self.cmp_abs(o),
            _ => o.cmp_abs(self),
        }
    }
    pub fn lt(&self, o: &Bf) -> bool {
        self.cmp(o) == Ordering::Less
    }
    pub fn le(&self, o: &Bf) -> bool {
        self.cmp(o) != Ordering::Greater
    }

    /// exact sum (operands must not be absurdly far apart: guarded by the callers through `add_r`)
    pub fn add_exact(&self, o: &Bf) -> Bf {
        if self.is_zero() {
            return o.clone();
        }
        if o.is_zero() {
            return self.clone();
        }
        let e = self.e.min(o.e);
        assert!((self.e - e) < (1 << 22) && (o.e - e) < (1 << 22), "Bf::add_exact: exponent gap too large");
        let a = nshl(&self.m, (self.e - e) as u64);
        let b = nshl(&o.m, (o.e - e) as u64);
        if self.neg == o.neg {
            Bf { neg: self.neg, m: nadd(&a, &b), e }.strip()
        } else {
            match ncmp(&a, &b) {
                Ordering::Equal => Bf::zero(),
                Ordering::Greater => Bf { neg: self.neg, m: nsub(&a, &b), e }.strip(),
                Ordering::Less => Bf { neg: o.neg, m: nsub(&b, &a), e }.strip(),
            }
        }
    }
    pub fn sub_exact(&self, o: &Bf) -> Bf {
        self.add_exact(&o.neg())
    }
    pub fn mul_exact(&self, o: &Bf) -> Bf {
        if self.is_zero() || o.is_zero() {
            return Bf::zero();
        }
        Bf { neg: self.neg != o.neg, m: nmul(&self.m, &o.m), e: self.e + o.e }.strip()
    }
    pub fn mul_small(&self, k: u64) -> Bf {
        if self.is_zero() || k == 0 {
            return Bf::zero();
        }
        Bf { neg: self.neg, m: nmul_small(&self.m, k), e: self.e }
    }

    /// round to at most p significant bits in direction `dir`
    pub fn round(&self, p: u64, dir: Dir) -> Bf {
        let b = self.bits();
        if b <= p {
            return self.clone();
        }
        let k = b - p;
        let (mut m, sticky) = nshr(&self.m, k);
        // toward -inf: positive truncates, negative goes away from zero; toward +inf: the reverse
        let away = sticky && ((dir == Dir::Up) != self.neg);
        if away {
            m = nadd(&m, &[1]);
        }
        Bf { neg: self.neg, m, e: self.e + k as i64 }.strip()
    }

    /// self + o rounded to p bits (exact alignment; if the operands are more than 2p+128 bits apart the
    /// smaller one is replaced by a same-signed "sticky" quantity below the rounding position)
    pub fn add_r(&self, o: &Bf, p: u64, dir: Dir) -> Bf {
        if self.is_zero() {
            return o.round(p, dir);
        }
        if o.is_zero() {
            return self.round(p, dir);
        }
        let (big, small) = if self.msb() >= o.msb() { (self, o) } else { (o, self) };
        let gap_limit = (2 * p + 128).max(big.bits() + p + 128) as i64;
        if big.msb() - small.msb() > gap_limit {
            // small lies strictly below every bit of `big` and below the rounding position
            let tiny = Bf { neg: small.neg, m: vec![1], e: big.msb() - gap_limit };
            return big.add_exact(&tiny).round(p, dir);
        }
        self.add_exact(o).round(p, dir)
    }
    pub fn sub_r(&self, o: &Bf, p: u64, dir: Dir) -> Bf {
        self.add_r(&o.neg(), p, dir)
    }
    pub fn mul_r(&self, o: &Bf, p: u64, dir: Dir) -> Bf {
        self.mul_exact(o).round(p, dir)
    }
    /// self / o rounded to p bits
    pub fn div_r(&self, o: &Bf, p: u64, dir: Dir) -> Bf {
        assert!(!o.is_zero(), "Bf division by zero");
        if self.is_zero() {
            return Bf::zero();
        }
        let ba = self.bits() as i64;
        let bb = o.bits() as i64;
        let s = (p as i64 + 2 + bb - ba).max(0) as u64;
        let num = nshl(&self.m, s);
        let (q, r) = ndivrem(&num, &o.m);
        let neg = self.neg != o.neg;
        let mut res = Bf { neg, m: q, e: self.e - o.e - s as i64 };
        if !r.is_empty() {
            // quotient was truncated toward zero: append a sticky bit
            res.m = nshl(&res.m, 1);
            res.m = nadd(&res.m, &[1]);
            res.e -= 1;
        }
        res.round(p, dir)
    }
    pub fn div_small_r(&self, d: u64, p: u64, dir: Dir) -> Bf {
        self.div_r(&Bf::from_u64(d), p, dir)
    }
    /// sqrt rounded to p bits; self >= 0
    pub fn sqrt_r(&self, p: u64, dir: Dir) -> Bf {
        assert!(!self.neg || self.is_zero(), "sqrt of a negative number");
        if self.is_zero() {
            return Bf::zero();
        }
        // scale so that the integer root has at least p+2 bits and the exponent is even
        let b = self.bits();
        let mut s = if 2 * (p + 2) > b { 2 * (p + 2) - b } else { 0 };
        if (self.e - s as i64) % 2 != 0 {
            s += 1;
        }
        let m = nshl(&self.m, s);
        let root = nsqrt(&m);
        let exact = ncmp(&nmul(&root, &root), &m) == Ordering::Equal;
        let mut res = Bf { neg: false, m: root, e: (self.e - s as i64) / 2 };
        if !exact {
            res.m = nshl(&res.m, 1);
            res.m = nadd(&res.m, &[1]);
            res.e -= 1;
        }
        res.round(p, dir)
    }

    /// nearest-ish f64 (for estimates only; saturates to +-MAX / flushes to 0)
    pub fn approx_f64(&self) -> f64 {
        if self.is_zero() {
            return 0.0;
        }
        let b = self.bits();
        let (top, _) = if b > 64 { nshr(&self.m, b - 64) } else { (self.m.clone(), false) };
        let t = top[0] as f64;
        let e = self.e + if b > 64 { (b - 64) as i64 } else { 0 };
        let v = if e > 1100 {
            f64::MAX
        } else if e < -1200 {
            0.0
        } else {
            let h = e / 2;
            t * 2f64.powi(h as i32) * 2f64.powi((e - h) as i32)
        };
        if self.neg {
            -v
        } else {
            v
        }
    }
    /// log2|self| as an f64 estimate
    pub fn approx_log2(&self) -> f64 {
        if self.is_zero() {
            return f64::NEG_INFINITY;
        }
        let b = self.bits();
        let (top, _) = if b > 64 { nshr(&self.m, b - 64) } else { (self.m.clone(), false) };
        (top[0] as f64).log2() + (self.e + if b > 64 { (b - 64) as i64 } else { 0 }) as f64
    }
    /// floor / nearest integer helpers for small values
    pub fn to_i64_round(&self) -> i64 {
        let v = self.approx_f64();
        assert!(v.abs() < 9e15, "to_i64_round: value too large");
        v.round() as i64
    }
    pub fn to_decimal_string(&self, digits: usize) -> String {
        // for the self-test dump: sign, mantissa in hex, exponent
        let _ = digits;
        self.to_hex()
    }
    pub fn to_hex(&self) -> String {
        if self.is_zero() {
            return "0x0p0".into();
        }
        let mut s = String::new();
        if self.neg {
            s.push('-');
        }
        s.push_str("0x");
        for (i, l) in self.m.iter().rev().enumerate() {
            if i == 0 {
                s.push_str(&format!("{:x}", l));
            } else {
                s.push_str(&format!("{:016x}", l));
            }
        }
        s.push_str(&format!("p{}", self.e));
        s
    }
}

// ------------------------------------------------------------------------------------------

/// Closed interval [lo, hi] with lo <= hi.
#[derive(Clone, Debug)]
pub struct Iv {
    pub lo: Bf,
    pub hi: Bf,
}

impl Iv {
    pub fn point(b: &Bf) -> Iv {
        Iv { lo: b.clone(), hi: b.clone() }
    }
    pub fn from_i64(v: i64) -> Iv {
        Iv::point(&Bf::from_i64(v))
    }
    pub fn zero() -> Iv {
        Iv::point(&Bf::zero())
    }
    /// enclosure of an exact value at precision p
    pub fn from_exact(b: &Bf, p: u64) -> Iv {
        Iv { lo: b.round(p, Dir::Down), hi: b.round(p, Dir::Up) }
    }
    pub fn new(lo: Bf, hi: Bf) -> Iv {
        assert!(lo.le(&hi), "Iv::new: lo > hi");
        Iv { lo, hi }
    }
    pub fn is_point(&self) -> bool {
        self.lo.cmp(&self.hi) == Ordering::Equal
    }
    pub fn contains_zero(&self) -> bool {
        self.lo.sign() <= 0 && self.hi.sign() >= 0
    }
    pub fn is_pos(&self) -> bool {
        self.lo.sign() > 0
    }
    pub fn is_neg(&self) -> bool {
        self.hi.sign() < 0
    }
    pub fn neg(&self) -> Iv {
        Iv { lo: self.hi.neg(), hi: self.lo.neg() }
    }
    /// max |x| over the interval
    pub fn mag(&self) -> Bf {
        let a = self.lo.abs();
        let b = self.hi.abs();
        if a.cmp(&b) == Ordering::Greater {
            a
        } else {
            b
        }
    }
    /// min |x| over the interval
    pub fn mig(&self) -> Bf {
        if self.contains_zero() {
            Bf::zero()
        } else {
            let a = self.lo.abs();
            let b = self.hi.abs();
            if a.cmp(&b) == Ordering::Less {
                a
            } else {
                b
            }
        }
    }
    pub fn abs(&self) -> Iv {
        Iv { lo: self.mig(), hi: self.mag() }
    }
    pub fn add(&self, o: &Iv, p: u64) -> Iv {
        Iv { lo: self.lo.add_r(&o.lo, p, Dir::Down), hi: self.hi.add_r(&o.hi, p, Dir::Up) }
    }
    pub fn sub(&self, o: &Iv, p: u64) -> Iv {
        Iv { lo: self.lo.sub_r(&o.hi, p, Dir::Down), hi: self.hi.sub_r(&o.lo, p, Dir::Up) }
    }
    pub fn add_bf(&self, b: &Bf, p: u64) -> Iv {
        self.add(&Iv::point(b), p)
    }
    pub fn mul(&self, o: &Iv, p: u64) -> Iv {
        let c = [self.lo.mul_exact(&o.lo), self.lo.mul_exact(&o.hi), self.hi.mul_exact(&o.lo), self.hi.mul_exact(&o.hi)];
        let mut lo = &c[0];
        let mut hi = &c[0];
        for x in &c[1..] {
            if x.lt(lo) {
                lo = x;
            }
            if hi.lt(x) {
                hi = x;
            }
        }
        Iv { lo: lo.round(p, Dir::Down), hi: hi.round(p, Dir::Up) }
    }
    pub fn sqr(&self, p: u64) -> Iv {
        let a = self.abs();
        Iv { lo: a.lo.mul_exact(&a.lo).round(p, Dir::Down), hi: a.hi.mul_exact(&a.hi).round(p, Dir::Up) }
    }
    pub fn mul_small(&self, k: u64, p: u64) -> Iv {
        Iv { lo: self.lo.mul_small(k).round(p, Dir::Down), hi: self.hi.mul_small(k).round(p, Dir::Up) }
    }
    pub fn mul_pow2(&self, k: i64) -> Iv {
        Iv { lo: self.lo.mul_pow2(k), hi: self.hi.mul_pow2(k) }
    }
    pub fn div(&self, o: &Iv, p: u64) -> Iv {
        assert!(!o.contains_zero(), "Iv division by an interval containing zero");
        let c = [(&self.lo, &o.lo), (&self.lo, &o.hi), (&self.hi, &o.lo), (&self.hi, &o.hi)];
        let mut lo: Option<Bf> = None;
        let mut hi: Option<Bf> = None;
        for (a, b) in c {
            let d = a.div_r(b, p, Dir::Down);
            let u = a.div_r(b, p, Dir::Up);
            lo = Some(match lo {
                None => d,
                Some(l) => {
                    if d.lt(&l) {
                        d
                    } else {
                        l
                    }
                }
            });
            hi = Some(match hi {
                None => u,
                Some(h) => {
                    if h.lt(&u) {
                        u
                    } else {
                        h
                    }
                }
            });
        }
        Iv { lo: lo.unwrap(), hi: hi.unwrap() }
    }
    pub fn div_small(&self, d: u64, p: u64) -> Iv {
        Iv { lo: self.lo.div_small_r(d, p, Dir::Down), hi: self.hi.div_small_r(d, p, Dir::Up) }
    }
    pub fn sqrt(&self, p: u64) -> Iv {
        assert!(self.lo.sign() >= 0, "Iv sqrt of a possibly negative interval");
        Iv { lo: self.lo.sqrt_r(p, Dir::Down), hi: self.hi.sqrt_r(p, Dir::Up) }
    }
    /// widen by +-r (r >= 0)
    pub fn widen(&self, r: &Bf, p: u64) -> Iv {
        Iv { lo: self.lo.sub_r(r, p, Dir::Down), hi: self.hi.add_r(r, p, Dir::Up) }
    }
    pub fn hull(&self, o: &Iv) -> Iv {
        Iv { lo: if self.lo.lt(&o.lo) { self.lo.clone() } else { o.lo.clone() }, hi: if o.hi.lt(&self.hi) { self.hi.clone() } else { o.hi.clone() } }
    }
    /// relative width estimate log2((hi-lo)/|mid|), -inf for points
    pub fn rel_width_log2(&self) -> f64 {
        let w = self.hi.sub_exact(&self.lo);
        if w.is_zero() {
            return f64::NEG_INFINITY;
        }
        let m = self.mag();
        w.approx_log2() - m.approx_log2()
    }
    pub fn approx_f64(&self) -> f64 {
        self.lo.approx_f64() * 0.5 + self.hi.approx_f64() * 0.5
    }
}

#[cfg(test)]
mod tests {
    use super::*;
    #[test]
    fn div_basic() {
        let a: Vec<u64> = vec![0x123456789abcdef0, 0xfedcba9876543210, 0x1111222233334444, 0x5];
        let b: Vec<u64> = vec![0xffffffff00000001, 0x8000000000000001];
        let (q, r) = ndivrem(&a, &b);
        let back = nadd(&nmul(&q, &b), &r);
        assert_eq!(back, a);
        assert!(ncmp(&r, &b) == Ordering::Less);
        let s = nsqrt(&a);
        assert!(ncmp(&nmul(&s, &s), &a) != Ordering::Greater);
        let s1 = nadd(&s, &[1]);
        assert!(ncmp(&nmul(&s1, &s1), &a) == Ordering::Greater);
    }
    #[test]
    fn bf_ops() {
        let one = Bf::from_i64(1);
        let three = Bf::from_i64(3);
        let d = one.div_r(&three, 64, Dir::Down);
        let u = one.div_r(&three, 64, Dir::Up);
        assert!(d.lt(&u));
        assert!(d.mul_exact(&three).lt(&one));
        assert!(one.lt(&u.mul_exact(&three)));
        let two = Bf::from_i64(2);
        let sd = two.sqrt_r(100, Dir::Down);
        let su = two.sqrt_r(100, Dir::Up);
        assert!(sd.mul_exact(&sd).lt(&two) && two.lt(&su.mul_exact(&su)));
        assert_eq!(Bf::from_i64(9).sqrt_r(10, Dir::Down).cmp(&three), Ordering::Equal);
        let x = Bf::from_f64(1.0).add_r(&Bf::pow2(-5000), 64, Dir::Up);
        assert!(one.lt(&x));
        let y = Bf::from_f64(1.0).add_r(&Bf::pow2(-5000), 64, Dir::Down);
        assert_eq!(y.cmp(&one), Ordering::Equal);
        let y = Bf::from_f64(1.0).add_r(&Bf::pow2(-5000).neg(), 64, Dir::Down);
        assert!(y.lt(&one));
    }
}
