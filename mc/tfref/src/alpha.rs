//! Deterministic input alphabets (no randomness anywhere): run-bounded bit patterns,
//! f64 and double-double families.  Ordered simplest-first.

use crate::big::dd_valid_fast;

/// All `nbits`-bit strings with at most `k` maximal runs of equal bits, as integers
/// (bit nbits-1 is the first bit of the string).  Ordered by number of runs, then by
/// run boundaries.  |R_1| = 2, |R_2| = 2n, ...
pub fn run_bounded(nbits: u32, k: u32) -> Vec<u64> {
    assert!(nbits >= 1 && nbits <= 64);
    let mut out = Vec::new();
    // boundaries between bit i and i+1 (counted from the top): positions 1..nbits-1
    fn rec(nbits: u32, runs_left: u32, start: u32, cuts: &mut Vec<u32>, out: &mut Vec<Vec<u32>>) {
        out.push(cuts.clone());
        if runs_left == 0 {
            return;
        }
        for c in start..nbits {
            cuts.push(c);
            rec(nbits, runs_left - 1, c + 1, cuts, out);
            cuts.pop();
        }
    }
    let mut cutsets = Vec::new();
    rec(nbits, k.saturating_sub(1), 1, &mut Vec::new(), &mut cutsets);
    cutsets.sort_by(|a, b| a.len().cmp(&b.len()).then(a.cmp(b)));
    for first in [0u64, 1u64] {
        for cs in &cutsets {
            // build the string from the top
            let mut v: u64 = 0;
            let mut bit = first;
            let mut ci = 0;
            for pos in 0..nbits {
                if ci < cs.len() && cs[ci] == pos {
                    bit ^= 1;
                    ci += 1;
                }
                v = (v << 1) | bit;
            }
            out.push(v);
        }
    }
    // deterministic order: by number of runs (already), stable
    let mut seen = std::collections::HashSet::new();
    out.retain(|x| seen.insert(*x));
    out
}

/// Same as run_bounded for 128-bit strings.
pub fn run_bounded_128(k: u32) -> Vec<u128> {
    let nbits = 128u32;
    let mut out = Vec::new();
    fn rec(nbits: u32, runs_left: u32, start: u32, cuts: &mut Vec<u32>, out: &mut Vec<Vec<u32>>) {
        out.push(cuts.clone());
        if runs_left == 0 {
            return;
        }
        for c in start..nbits {
            cuts.push(c);
            rec(nbits, runs_left - 1, c + 1, cuts, out);
            cuts.pop();
        }
    }
    let mut cutsets = Vec::new();
    rec(nbits, k.saturating_sub(1), 1, &mut Vec::new(), &mut cutsets);
    cutsets.sort_by(|a, b| a.len().cmp(&b.len()).then(a.cmp(b)));
    for first in [0u128, 1u128] {
        for cs in &cutsets {
            let mut v: u128 = 0;
            let mut bit = first;
            let mut ci = 0;
            for pos in 0..nbits {
                if ci < cs.len() && cs[ci] == pos {
                    bit ^= 1;
                    ci += 1;
                }
                v = (v << 1) | bit;
            }
            out.push(v);
        }
    }
    out
}

/// Run-bounded strings whose run boundaries are restricted to a given set of positions
/// (a coarser family used where the full R_k would make pair products too large).
pub fn run_bounded_at(nbits: u32, k: u32, positions: &[u32]) -> Vec<u64> {
    let all = run_bounded(nbits, k);
    all.into_iter()
        .filter(|&v| {
            // boundaries of v
            let mut ok = true;
            for pos in 1..nbits {
                let b1 = (v >> (nbits - pos)) & 1;
                let b0 = (v >> (nbits - pos - 1)) & 1;
                if b1 != b0 && !positions.contains(&pos) {
                    ok = false;
                    break;
                }
            }
            ok
        })
        .collect()
}

/// The leading 52 fraction bits of fixed irrational constants ("generic" mantissas).
pub fn gen_fracs(g: usize) -> Vec<u64> {
    let c = [
        core::f64::consts::PI,
        core::f64::consts::E,
        core::f64::consts::SQRT_2,
        core::f64::consts::LN_2,
        1.618033988749895_f64,
        core::f64::consts::FRAC_1_PI,
        core::f64::consts::LN_10,
        1.7320508075688772_f64,
        1.2599210498948732_f64, // cbrt 2
        0.5772156649015329_f64, // Euler gamma
        1.0471975511965976_f64, // pi/3
        0.915965594177219_f64,  // Catalan
    ];
    assert!(g <= c.len());
    c[..g].iter().map(|x| x.to_bits() & ((1u64 << 52) - 1)).collect()
}

/// A fixed Weyl (golden-ratio) sequence of 52-bit fractions: deterministic, seed-independent
/// "generic" mantissas with no structure aligned to rounding boundaries.
pub fn weyl_fracs(n: usize, stream: u64) -> Vec<u64> {
    let mut v = Vec::with_capacity(n);
    let mut x: u64 = 0x243F6A8885A308D3u64.wrapping_mul(2 * stream + 1);
    for _ in 0..n {
        x = x.wrapping_add(0x9E3779B97F4A7C15);
        // one mixing round so that successive values do not differ by a constant
        let mut z = x;
        z = (z ^ (z >> 30)).wrapping_mul(0xBF58476D1CE4E5B9);
        z = (z ^ (z >> 27)).wrapping_mul(0x94D049BB133111EB);
        z ^= z >> 31;
        v.push(z >> 12);
    }
    v
}

/// Member `i` of a fixed generic double-double stream: full 52-bit fractions in both words, exponent of
/// the high word spread over [emin, emax], low word 1..4 binades below half an ulp (so that nearly all
/// of its bits matter), either sign.  Deterministic (a Weyl sequence through a mixer): the stream is a
/// fixed alphabet that is enumerated completely, not a random sample.
pub fn generic_dd(i: u64, stream: u64, emin: i32, emax: i32) -> Option<[f64; 2]> {
    let mut x: u64 = (i + 1).wrapping_mul(0x9E3779B97F4A7C15).wrapping_add(stream.wrapping_mul(0xD1B54A32D192ED03));
    let mut next = || {
        x = x.wrapping_add(0x9E3779B97F4A7C15);
        let mut z = x;
        z = (z ^ (z >> 30)).wrapping_mul(0xBF58476D1CE4E5B9);
        z = (z ^ (z >> 27)).wrapping_mul(0x94D049BB133111EB);
        z ^ (z >> 31)
    };
    let a = next();
    let b = next();
    let c = next();
    let span = (emax - emin + 1) as u64;
    let e = emin + (c % span) as i32;
    let hi = mk_f64((c >> 40) & 1 == 1, e, a >> 12)?;
    let g = ((c >> 42) & 3) as i32;
    let lo = mk_f64_any((c >> 41) & 1 == 1, e - 54 - g, b >> 12)?;
    if dd_valid_fast(hi, lo) {
        Some([hi, lo])
    } else {
        None
    }
}

/// 2^e * (1 + frac/2^52) for a normal exponent, or None when out of the normal range.
#[inline]
pub fn mk_f64(neg: bool, e: i32, frac: u64) -> Option<f64> {
    if !(-1022..=1023).contains(&e) {
        return None;
    }
    let b = ((neg as u64) << 63) | (((e + 1023) as u64) << 52) | (frac & ((1u64 << 52) - 1));
    Some(f64::from_bits(b))
}

/// frac * 2^-1074 (subnormal), frac < 2^52
#[inline]
pub fn mk_subnormal(neg: bool, frac: u64) -> f64 {
    f64::from_bits(((neg as u64) << 63) | (frac & ((1u64 << 52) - 1)))
}

/// value 2^e*(1+m/2^52) allowing e below -1022 (a subnormal); None if not exactly representable.
pub fn mk_f64_any(neg: bool, e: i32, frac: u64) -> Option<f64> {
    if e >= -1022 {
        return mk_f64(neg, e, frac);
    }
    let m = (1u64 << 52) | (frac & ((1u64 << 52) - 1));
    let (v, exact) = crate::big::Dy::from_parts(neg, m as u128, e - 52).to_f64_rn();
    if exact {
        Some(v)
    } else {
        None
    }
}

#[derive(Clone, Debug)]
pub struct DdSpec {
    /// exponents of the high word
    pub exps: Vec<i32>,
    /// fraction fields of the high word
    pub hi_fracs: Vec<u64>,
    /// signs of the high word to generate
    pub hi_signs: Vec<bool>,
    /// gaps g: |lo| = 2^(e_hi - 53 - g) * (1 + m/2^52)
    pub gaps: Vec<i32>,
    pub lo_fracs: Vec<u64>,
    /// also (hi, +0) and (hi, -0)
    pub zero_lo: bool,
    /// also (hi, +-2^-1074) (filtered by validity)
    pub tiny_lo: bool,
}

/// Enumerate the double-double alphabet described by `spec`, keeping only valid pairs.
/// Order: high words outermost (simplest first), then zero low word, then gaps ascending.
pub fn dd_alpha(spec: &DdSpec) -> Vec<[f64; 2]> {
    let mut out = Vec::new();
    for &e in &spec.exps {
        for &hf in &spec.hi_fracs {
            for &hs in &spec.hi_signs {
                let hi = match mk_f64(hs, e, hf) {
                    Some(h) => h,
                    None => continue,
                };
                if spec.zero_lo {
                    out.push([hi, 0.0]);
                    out.push([hi, -0.0]);
                }
                for &g in &spec.gaps {
                    for &lf in &spec.lo_fracs {
                        for ls in [false, true] {
                            if let Some(lo) = mk_f64_any(ls, e - 53 - g, lf) {
                                if lo != 0.0 && dd_valid_fast(hi, lo) {
                                    out.push([hi, lo]);
                                }
                            }
                        }
                    }
                }
                if spec.tiny_lo {
                    for ls in [false, true] {
                        let lo = mk_subnormal(ls, 1);
                        if dd_valid_fast(hi, lo) {
                            out.push([hi, lo]);
                        }
                    }
                }
            }
        }
    }
    // dedup preserving order (different (g, m) can coincide)
    let mut seen = std::collections::HashSet::new();
    out.retain(|v| seen.insert((v[0].to_bits(), v[1].to_bits())));
    out
}

/// Scale a double-double by 2^k; None unless both words scale exactly and stay finite.
#[inline]
pub fn dd_scale(v: [f64; 2], k: i32) -> Option<[f64; 2]> {
    Some([f64_scale(v[0], k)?, f64_scale(v[1], k)?])
}

/// x * 2^k if that is exactly representable (finite), else None
pub fn f64_scale(x: f64, k: i32) -> Option<f64> {
    if x == 0.0 {
        return Some(x);
    }
    let b = x.to_bits();
    let ex = ((b >> 52) & 0x7ff) as i32;
    if ex != 0 {
        let ne = ex + k;
        if (1..=2046).contains(&ne) {
            return Some(f64::from_bits((b & !(0x7ffu64 << 52)) | ((ne as u64) << 52)));
        }
        if ne > 2046 {
            return None;
        }
    }
    let (y, exact) = crate::big::Dy::from_f64(x).mul_pow2(k).to_f64_rn();
    if exact && y.is_finite() {
        Some(y)
    } else {
        None
    }
}

/// Integer exponents lo..=hi step
pub fn range_step(lo: i32, hi: i32, step: i32) -> Vec<i32> {
    let mut v = Vec::new();
    let mut x = lo;
    while x <= hi {
        v.push(x);
        x += step;
    }
    v
}

#[cfg(test)]
mod tests {
    use super::*;
    #[test]
    fn sizes() {
        assert_eq!(run_bounded(52, 1).len(), 2);
        assert_eq!(run_bounded(52, 2).len(), 104);
        assert_eq!(run_bounded(52, 3).len(), 2654);
        assert_eq!(run_bounded(8, 8).len(), 256);
        assert_eq!(run_bounded_128(2).len(), 256);
        assert_eq!(run_bounded_128(3).len(), 16258);
        assert_eq!(mk_f64_any(false, -1074, 0), Some(5e-324));
        assert_eq!(mk_f64_any(false, -1075, 0), None);
        assert_eq!(mk_f64_any(false, -1073, 1u64 << 51), Some(1.5e-323));
        assert_eq!(dd_scale([1.0, 2f64.powi(-60)], -1020), None);
        assert_eq!(dd_scale([1.0, 2f64.powi(-60)], -1014), Some([2f64.powi(-1014), 5e-324]));
        assert_eq!(dd_scale([1.5, 0.0], 1023), Some([1.5 * 2f64.powi(1023), 0.0]));
        assert_eq!(dd_scale([1.5, 0.0], 1024), None);
    }
}
