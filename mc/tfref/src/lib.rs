pub mod alpha;
pub mod bf;
pub mod big;
pub mod oracle;
pub mod rf;
