pub mod alpha;
pub mod big;
