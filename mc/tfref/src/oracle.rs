//! Three-valued decision of  |r - E| <= tol  where the reference value E and the tolerance are
//! known as interval enclosures.  Sound in the alarm direction: `Fail` is only returned when
//! the inequality is violated for EVERY value in the enclosures.

use crate::bf::{Bf, Dir, Iv};
use core::cmp::Ordering;

#[derive(Debug, Clone, Copy, PartialEq)]
pub enum Dec {
    /// holds for every admissible reference value; payload = approx |err| / tol
    Pass(f64),
    /// violated for every admissible reference value
    Fail(f64),
    Undecided,
}

pub fn decide(r: &Bf, e: &Iv, tol: &Iv) -> Dec {
    assert!(tol.lo.sign() >= 0, "negative tolerance");
    // err = r - E
    let elo = r.sub_exact(&e.hi);
    let ehi = r.sub_exact(&e.lo);
    let err = Iv { lo: elo, hi: ehi };
    let emax = err.mag();
    let emin = err.mig();
    let ratio = if tol.lo.is_zero() {
        if emax.is_zero() {
            0.0
        } else {
            f64::INFINITY
        }
    } else if emax.is_zero() {
        0.0
    } else {
        (emax.approx_log2() - tol.lo.approx_log2()).exp2()
    };
    if emax.cmp(&tol.lo) != Ordering::Greater {
        Dec::Pass(ratio)
    } else if emin.cmp(&tol.hi) == Ordering::Greater {
        Dec::Fail(ratio)
    } else {
        Dec::Undecided
    }
}

/// 2^k * |e|
pub fn rel(e: &Iv, k: i64) -> Iv {
    e.abs().mul_pow2(k)
}
/// a + 2^k (a >= 0)
pub fn plus_pow2(a: &Iv, k: i64, p: u64) -> Iv {
    a.add(&Iv::point(&Bf::pow2(k)), p)
}
pub fn max_iv(a: &Iv, b: &Iv) -> Iv {
    Iv { lo: if a.lo.lt(&b.lo) { b.lo.clone() } else { a.lo.clone() }, hi: if a.hi.lt(&b.hi) { b.hi.clone() } else { a.hi.clone() } }
}
pub fn round_out(v: &Iv, p: u64) -> Iv {
    Iv { lo: v.lo.round(p, Dir::Down), hi: v.hi.round(p, Dir::Up) }
}
