//! Exact signed dyadic rationals in a fixed-capacity, stack-allocated long accumulator.
//!
//! A value is  (-1)^neg * sum_i d[i] * 2^(64*(base+i)),  0 <= i < n.  Limb positions are
//! aligned to multiples of 64 bits (Kulisch style), so addition never shifts; only the
//! occupied window [base, base+n) is stored and touched.  Every f64, every double-double,
//! every product of two or three of them and every 128-bit integer embeds exactly.
//! Nothing here rounds except the explicit `to_f64_rn`.

use core::cmp::Ordering;

pub const CAP: usize = 112;

#[derive(Clone)]
pub struct Dy {
    neg: bool,
    base: i32,
    n: usize,
    d: [u64; CAP],
}

impl core::fmt::Debug for Dy {
    fn fmt(&self, f: &mut core::fmt::Formatter<'_>) -> core::fmt::Result {
        write!(f, "{}", self.to_hex())
    }
}

/// Decompose a finite f64 into (neg, m, e) with |x| = m * 2^e, m < 2^53 (m == 0 for zeros).
#[inline]
pub fn decompose(x: f64) -> (bool, u64, i32) {
    let b = x.to_bits();
    let neg = (b >> 63) != 0;
    let ex = ((b >> 52) & 0x7ff) as i32;
    let fr = b & ((1u64 << 52) - 1);
    debug_assert!(ex != 0x7ff, "decompose: non-finite");
    if ex == 0 {
        (neg, fr, -1074)
    } else {
        (neg, fr | (1u64 << 52), ex - 1075)
    }
}

impl Dy {
    #[inline]
    pub fn zero() -> Dy {
        Dy { neg: false, base: 0, n: 0, d: [0; CAP] }
    }
    #[inline]
    pub fn is_zero(&self) -> bool {
        self.n == 0
    }
    #[inline]
    pub fn is_neg(&self) -> bool {
        self.neg && self.n != 0
    }
    /// -1, 0, 1
    #[inline]
    pub fn sign(&self) -> i32 {
        if self.n == 0 {
            0
        } else if self.neg {
            -1
        } else {
            1
        }
    }

    #[inline]
    fn norm(&mut self) {
        while self.n > 0 && self.d[self.n - 1] == 0 {
            self.n -= 1;
        }
        if self.n == 0 {
            self.neg = false;
            self.base = 0;
            return;
        }
        // strip low zero limbs (keeps windows tight for products)
        let mut z = 0;
        while self.d[z] == 0 {
            z += 1;
        }
        if z > 0 {
            self.d.copy_within(z..self.n, 0);
            for i in (self.n - z)..self.n {
                self.d[i] = 0;
            }
            self.n -= z;
            self.base += z as i32;
        }
    }

    /// m * 2^e, exact.
    pub fn from_parts(neg: bool, m: u128, e: i32) -> Dy {
        let mut r = Dy::zero();
        if m == 0 {
            return r;
        }
        let q = e.div_euclid(64);
        let s = e.rem_euclid(64) as u32;
        r.base = q;
        r.neg = neg;
        let lo = m << s;
        let hi = if s == 0 { 0 } else { m >> (128 - s) };
        r.d[0] = lo as u64;
        r.d[1] = (lo >> 64) as u64;
        r.d[2] = hi as u64;
        r.d[3] = (hi >> 64) as u64;
        r.n = 4;
        r.norm();
        r
    }

    #[inline]
    pub fn from_f64(x: f64) -> Dy {
        assert!(x.is_finite(), "Dy::from_f64: non-finite input");
        let (neg, m, e) = decompose(x);
        Dy::from_parts(neg, m as u128, e)
    }
    pub fn from_i128(v: i128) -> Dy {
        Dy::from_parts(v < 0, v.unsigned_abs(), 0)
    }
    pub fn from_u128(v: u128) -> Dy {
        Dy::from_parts(false, v, 0)
    }
    pub fn from_i64(v: i64) -> Dy {
        Dy::from_i128(v as i128)
    }
    /// 2^k
    pub fn pow2(k: i32) -> Dy {
        Dy::from_parts(false, 1, k)
    }
    /// hi + lo exactly
    #[inline]
    pub fn from_dd(hi: f64, lo: f64) -> Dy {
        Dy::from_f64(hi).add(&Dy::from_f64(lo))
    }

    #[inline]
    pub fn neg(&self) -> Dy {
        let mut r = self.clone();
        if r.n != 0 {
            r.neg = !r.neg;
        }
        r
    }
    #[inline]
    pub fn abs(&self) -> Dy {
        let mut r = self.clone();
        r.neg = false;
        r
    }

    #[inline]
    fn top(&self) -> i32 {
        self.base + self.n as i32
    }
    #[inline]
    fn limb(&self, pos: i32) -> u64 {
        let i = pos - self.base;
        if i < 0 || i >= self.n as i32 {
            0
        } else {
            self.d[i as usize]
        }
    }

    pub fn cmp_abs(&self, o: &Dy) -> Ordering {
        if self.n == 0 || o.n == 0 {
            return (self.n != 0).cmp(&(o.n != 0));
        }
        let ta = self.top();
        let tb = o.top();
        if ta != tb {
            return ta.cmp(&tb);
        }
        let lo = self.base.min(o.base);
        let mut p = ta - 1;
        while p >= lo {
            let a = self.limb(p);
            let b = o.limb(p);
            if a != b {
                return a.cmp(&b);
            }
            p -= 1;
        }
        Ordering::Equal
    }

    pub fn cmp(&self, o: &Dy) -> Ordering {
        match (self.sign(), o.sign()) {
            (a, b) if a != b => a.cmp(&b),
            (0, _) => Ordering::Equal,
            (1, _) => self.cmp_abs(o),
            _ => o.cmp_abs(self),
        }
    }
    #[inline]
    pub fn eq(&self, o: &Dy) -> bool {
        self.cmp(o) == Ordering::Equal
    }
    #[inline]
    pub fn le(&self, o: &Dy) -> bool {
        self.cmp(o) != Ordering::Greater
    }
    #[inline]
    pub fn lt(&self, o: &Dy) -> bool {
        self.cmp(o) == Ordering::Less
    }

    // |a| + |b| with sign `neg`
    fn add_mag(a: &Dy, b: &Dy, neg: bool) -> Dy {
        let mut r = Dy::zero();
        let lo = a.base.min(b.base);
        let hi = a.top().max(b.top());
        let len = (hi - lo) as usize;
        assert!(len + 1 <= CAP, "Dy overflow (add): window of {} limbs", len + 1);
        r.base = lo;
        r.neg = neg;
        let mut carry = 0u64;
        for i in 0..len {
            let p = lo + i as i32;
            let (s1, c1) = a.limb(p).overflowing_add(b.limb(p));
            let (s2, c2) = s1.overflowing_add(carry);
            r.d[i] = s2;
            carry = (c1 as u64) + (c2 as u64);
        }
        r.d[len] = carry;
        r.n = len + 1;
        r.norm();
        r
    }
    // |a| - |b| where |a| >= |b|, with sign `neg`
    fn sub_mag(a: &Dy, b: &Dy, neg: bool) -> Dy {
        let mut r = Dy::zero();
        let lo = a.base.min(b.base);
        let hi = a.top().max(b.top());
        let len = (hi - lo) as usize;
        assert!(len <= CAP, "Dy overflow (sub): window of {} limbs", len);
        r.base = lo;
        r.neg = neg;
        let mut borrow = 0u64;
        for i in 0..len {
            let p = lo + i as i32;
            let (s1, c1) = a.limb(p).overflowing_sub(b.limb(p));
            let (s2, c2) = s1.overflowing_sub(borrow);
            r.d[i] = s2;
            borrow = (c1 as u64) + (c2 as u64);
        }
        assert!(borrow == 0, "Dy::sub_mag: |a| < |b|");
        r.n = len;
        r.norm();
        r
    }

    pub fn add(&self, o: &Dy) -> Dy {
        if self.n == 0 {
            return o.clone();
        }
        if o.n == 0 {
            return self.clone();
        }
        if self.neg == o.neg {
            Dy::add_mag(self, o, self.neg)
        } else {
            match self.cmp_abs(o) {
                Ordering::Equal => Dy::zero(),
                Ordering::Greater => Dy::sub_mag(self, o, self.neg),
                Ordering::Less => Dy::sub_mag(o, self, o.neg),
            }
        }
    }
    #[inline]
    pub fn sub(&self, o: &Dy) -> Dy {
        if o.n == 0 {
            return self.clone();
        }
        // avoid cloning o: flip sign logically
        if self.n == 0 {
            return o.neg();
        }
        if self.neg != o.neg {
            Dy::add_mag(self, o, self.neg)
        } else {
            match self.cmp_abs(o) {
                Ordering::Equal => Dy::zero(),
                Ordering::Greater => Dy::sub_mag(self, o, self.neg),
                Ordering::Less => Dy::sub_mag(o, self, !o.neg),
            }
        }
    }
    #[inline]
    pub fn add_f64(&self, x: f64) -> Dy {
        self.add(&Dy::from_f64(x))
    }
    #[inline]
    pub fn sub_f64(&self, x: f64) -> Dy {
        self.sub(&Dy::from_f64(x))
    }

    pub fn mul(&self, o: &Dy) -> Dy {
        let mut r = Dy::zero();
        if self.n == 0 || o.n == 0 {
            return r;
        }
        let len = self.n + o.n;
        assert!(len <= CAP, "Dy overflow (mul): {} limbs", len);
        for i in 0..self.n {
            let a = self.d[i] as u128;
            if a == 0 {
                continue;
            }
            let mut carry = 0u128;
            for j in 0..o.n {
                let t = a * (o.d[j] as u128) + (r.d[i + j] as u128) + carry;
                r.d[i + j] = t as u64;
                carry = t >> 64;
            }
            r.d[i + o.n] = carry as u64;
        }
        r.n = len;
        r.base = self.base + o.base;
        r.neg = self.neg != o.neg;
        r.norm();
        r
    }
    #[inline]
    pub fn sqr(&self) -> Dy {
        self.mul(self)
    }
    #[inline]
    pub fn mul_f64(&self, x: f64) -> Dy {
        self.mul(&Dy::from_f64(x))
    }
    /// exact product of two f64
    #[inline]
    pub fn prod_f64(a: f64, b: f64) -> Dy {
        let (na, ma, ea) = decompose(a);
        let (nb, mb, eb) = decompose(b);
        Dy::from_parts(na != nb, (ma as u128) * (mb as u128), ea + eb)
    }
    pub fn mul_u64(&self, k: u64) -> Dy {
        let mut r = Dy::zero();
        if self.n == 0 || k == 0 {
            return r;
        }
        assert!(self.n + 1 <= CAP, "Dy overflow (mul_u64)");
        let mut carry = 0u128;
        for i in 0..self.n {
            let t = (self.d[i] as u128) * (k as u128) + carry;
            r.d[i] = t as u64;
            carry = t >> 64;
        }
        r.d[self.n] = carry as u64;
        r.n = self.n + 1;
        r.base = self.base;
        r.neg = self.neg;
        r.norm();
        r
    }
    pub fn mul_i64(&self, k: i64) -> Dy {
        let r = self.mul_u64(k.unsigned_abs());
        if k < 0 {
            r.neg()
        } else {
            r
        }
    }
    /// self * 2^k, exact
    pub fn mul_pow2(&self, k: i32) -> Dy {
        if self.n == 0 {
            return Dy::zero();
        }
        let q = k.div_euclid(64);
        let s = k.rem_euclid(64) as u32;
        let mut r = Dy::zero();
        r.neg = self.neg;
        r.base = self.base + q;
        if s == 0 {
            r.d[..self.n].copy_from_slice(&self.d[..self.n]);
            r.n = self.n;
        } else {
            assert!(self.n + 1 <= CAP, "Dy overflow (mul_pow2)");
            let mut prev = 0u64;
            for i in 0..self.n {
                let v = self.d[i];
                r.d[i] = (v << s) | (prev >> (64 - s));
                prev = v;
            }
            r.d[self.n] = prev >> (64 - s);
            r.n = self.n + 1;
        }
        r.norm();
        r
    }

    /// index of the most significant set bit of |self| (floor(log2|self|)); None for zero
    pub fn msb(&self) -> Option<i32> {
        if self.n == 0 {
            return None;
        }
        let t = self.d[self.n - 1];
        Some(64 * (self.base + self.n as i32 - 1) + 63 - t.leading_zeros() as i32)
    }
    /// index of the least significant set bit
    pub fn lsb(&self) -> Option<i32> {
        if self.n == 0 {
            return None;
        }
        // norm() guarantees d[0] != 0
        Some(64 * self.base + self.d[0].trailing_zeros() as i32)
    }
    /// number of significant bits (msb - lsb + 1), 0 for zero
    pub fn sig_bits(&self) -> u32 {
        match (self.msb(), self.lsb()) {
            (Some(a), Some(b)) => (a - b + 1) as u32,
            _ => 0,
        }
    }
    #[inline]
    fn bit(&self, pos: i32) -> bool {
        let l = pos.div_euclid(64);
        let s = pos.rem_euclid(64);
        (self.limb(l) >> s) & 1 != 0
    }
    /// any set bit strictly below position `pos` ?
    fn any_below(&self, pos: i32) -> bool {
        if self.n == 0 {
            return false;
        }
        let l = pos.div_euclid(64);
        let s = pos.rem_euclid(64) as u32;
        // limbs strictly below l
        if self.base < l {
            // d[0] != 0 by normalisation and it is below l
            return true;
        }
        if self.base == l && s > 0 {
            return (self.limb(l) & ((1u64 << s) - 1)) != 0;
        }
        false
    }
    /// the (up to 64) bits [pos, pos+cnt) of |self| as an integer, cnt <= 64
    fn bits_at(&self, pos: i32, cnt: u32) -> u64 {
        let l = pos.div_euclid(64);
        let s = pos.rem_euclid(64) as u32;
        let lo = self.limb(l);
        let hi = self.limb(l + 1);
        let v = if s == 0 { lo } else { (lo >> s) | (hi << (64 - s)) };
        if cnt >= 64 {
            v
        } else {
            v & ((1u64 << cnt) - 1)
        }
    }

    pub fn is_integer(&self) -> bool {
        !self.any_below(0)
    }

    /// |self| with all bits below position `pos` cleared, same sign (truncation toward zero
    /// to a multiple of 2^pos)
    pub fn trunc_at(&self, pos: i32) -> Dy {
        let mut r = self.clone();
        if r.n == 0 {
            return r;
        }
        let l = pos.div_euclid(64);
        let s = pos.rem_euclid(64) as u32;
        for i in 0..r.n {
            let p = r.base + i as i32;
            if p < l {
                r.d[i] = 0;
            } else if p == l && s > 0 {
                r.d[i] &= !((1u64 << s) - 1);
            }
        }
        // norm() strips low zero limbs, but needs d[0..] consistent when everything is zero
        let mut all_zero = true;
        for i in 0..r.n {
            if r.d[i] != 0 {
                all_zero = false;
                break;
            }
        }
        if all_zero {
            return Dy::zero();
        }
        r.norm();
        r
    }
    /// round toward zero to an integer
    pub fn trunc(&self) -> Dy {
        self.trunc_at(0)
    }
    pub fn floor(&self) -> Dy {
        let t = self.trunc();
        if self.is_neg() && !self.is_integer() {
            t.sub(&Dy::from_i64(1))
        } else {
            t
        }
    }
    pub fn ceil(&self) -> Dy {
        let t = self.trunc();
        if !self.is_neg() && !self.is_integer() {
            t.add(&Dy::from_i64(1))
        } else {
            t
        }
    }
    /// nearest integer, halves away from zero
    pub fn round_half_away(&self) -> Dy {
        let t = self.trunc();
        if self.bit(-1) {
            if self.is_neg() {
                t.sub(&Dy::from_i64(1))
            } else {
                t.add(&Dy::from_i64(1))
            }
        } else {
            t
        }
    }
    /// self - trunc(self)
    pub fn fract(&self) -> Dy {
        self.sub(&self.trunc())
    }

    /// Some(v) if self is an integer that fits i128
    pub fn to_i128(&self) -> Option<i128> {
        if self.n == 0 {
            return Some(0);
        }
        if !self.is_integer() {
            return None;
        }
        let m = self.msb().unwrap();
        if m >= 128 {
            return None;
        }
        let lo = self.bits_at(0, 64) as u128;
        let hi = self.bits_at(64, 64) as u128;
        let mag = lo | (hi << 64);
        if self.neg {
            if mag > (1u128 << 127) {
                None
            } else {
                Some((mag as i128).wrapping_neg())
            }
        } else if mag > i128::MAX as u128 {
            None
        } else {
            Some(mag as i128)
        }
    }
    pub fn to_u128(&self) -> Option<u128> {
        if self.n == 0 {
            return Some(0);
        }
        if self.neg || !self.is_integer() {
            return None;
        }
        if self.msb().unwrap() >= 128 {
            return None;
        }
        let lo = self.bits_at(0, 64) as u128;
        let hi = self.bits_at(64, 64) as u128;
        Some(lo | (hi << 64))
    }

    /// Round to nearest f64, ties to even, IEEE overflow to infinity and gradual underflow.
    /// Returns (value, exact?).
    pub fn to_f64_rn(&self) -> (f64, bool) {
        let p = match self.msb() {
            None => return (0.0, true),
            Some(p) => p,
        };
        let sgn = if self.neg { -1.0f64 } else { 1.0f64 };
        if p > 1024 {
            return (sgn * f64::INFINITY, false);
        }
        let q = (p - 52).max(-1074); // position of the last kept bit
        let mut m = self.bits_at(q, 53);
        let round = self.bit(q - 1);
        let sticky = self.any_below(q - 1);
        let exact = !round && !sticky;
        if round && (sticky || (m & 1) == 1) {
            m += 1;
        }
        // m <= 2^53, value m * 2^q
        if m == 0 {
            return (sgn * 0.0, exact);
        }
        let mb = 63 - m.leading_zeros() as i32; // msb of m
        if mb + q > 1023 {
            return (sgn * f64::INFINITY, false);
        }
        let v = (m as f64) * pow2_f64(q);
        (sgn * v, exact)
    }

    /// Correctly rounded double-double: hi = RN(x), lo = RN(x - hi). None on overflow.
    pub fn to_dd_rn(&self) -> Option<(f64, f64)> {
        let (hi, _) = self.to_f64_rn();
        if !hi.is_finite() {
            return None;
        }
        let r = self.sub_f64(hi);
        let (lo, _) = r.to_f64_rn();
        Some((hi, lo))
    }

    /// trunc(self / d) as an exact integer (restoring binary long division); the quotient
    /// must be below 2^maxbits in magnitude (asserted).  Also returns the remainder
    /// self - q*d (same sign as self, |rem| < |d|).
    pub fn div_trunc(&self, d: &Dy, maxbits: i32) -> (Dy, Dy) {
        assert!(!d.is_zero(), "division by zero");
        if self.is_zero() {
            return (Dy::zero(), Dy::zero());
        }
        let db = d.abs();
        let mut r = self.abs();
        let top = self.msb().unwrap() - d.msb().unwrap() + 1;
        assert!(top <= maxbits + 1, "div_trunc: quotient too large ({} bits)", top);
        let mut q = Dy::zero();
        let mut i = top;
        while i >= 0 {
            let t = db.mul_pow2(i);
            if t.cmp_abs(&r) != Ordering::Greater {
                r = r.sub(&t);
                q = q.add(&Dy::pow2(i));
                if r.is_zero() {
                    break;
                }
            }
            i -= 1;
        }
        let neg = self.is_neg() != d.is_neg();
        (if neg { q.neg() } else { q }, if self.is_neg() { r.neg() } else { r })
    }

    /// |self| ~= m * 2^e with m in [2^63, 2^64) (top 64 bits, truncated); None for zero
    pub fn top_bits(&self) -> Option<(u64, i32)> {
        let p = self.msb()?;
        Some((self.bits_at(p - 63, 64), p - 63))
    }
    /// approximate |self| / |o| as an f64 (relative accuracy ~2^-52; 0 if self is zero,
    /// +inf if o is zero and self is not)
    pub fn approx_ratio(&self, o: &Dy) -> f64 {
        match (self.top_bits(), o.top_bits()) {
            (None, _) => 0.0,
            (Some(_), None) => f64::INFINITY,
            (Some((ma, ea)), Some((mb, eb))) => {
                let r = ma as f64 / mb as f64;
                let d = ea - eb;
                if d > 1000 {
                    f64::INFINITY
                } else if d < -1000 {
                    0.0
                } else {
                    r * (2.0f64).powi(d)
                }
            }
        }
    }
    /// Is |self| <= k * 2^s * |o| ?  (exact)  Returns (holds, approx ratio |self| / (k 2^s |o|)).
    pub fn within(&self, k: u64, s: i32, o: &Dy) -> (bool, f64) {
        if self.is_zero() {
            return (true, 0.0);
        }
        if o.is_zero() {
            return (false, f64::INFINITY);
        }
        // quick accept: |self| < 2^(msb+1) and k*2^s*|o| >= 2^(s + msb_o)
        let me = self.msb().unwrap();
        let mo = o.msb().unwrap();
        if me + 1 + 3 <= s + mo {
            // at least a factor 8 below the bound
            return (true, self.approx_ratio(o) / (k as f64) * (2.0f64).powi((-s).clamp(-1000, 1000)));
        }
        let bound = o.abs().mul_u64(k).mul_pow2(s);
        let ok = self.cmp_abs(&bound) != Ordering::Greater;
        (ok, self.approx_ratio(&bound))
    }

    /// Compare |self| * 2^sa with |o| * ko * 2^so  (ko a small integer); used for tolerance tests.
    pub fn cmp_abs_scaled(&self, sa: i32, o: &Dy, ko: u64, so: i32) -> Ordering {
        let a = self.abs().mul_pow2(sa);
        let b = o.abs().mul_u64(ko).mul_pow2(so);
        a.cmp_abs(&b)
    }

    pub fn to_hex(&self) -> String {
        if self.n == 0 {
            return "0".to_string();
        }
        let mut s = String::new();
        if self.neg {
            s.push('-');
        }
        s.push_str("0x");
        let mut first = true;
        for i in (0..self.n).rev() {
            if first {
                s.push_str(&format!("{:x}", self.d[i]));
                first = false;
            } else {
                s.push_str(&format!("{:016x}", self.d[i]));
            }
        }
        s.push_str(&format!("p{}", 64 * self.base as i64));
        s
    }

    /// little-endian limbs and the exponent (in bits) of limb 0: |self| = int(limbs) * 2^exp
    pub fn to_limbs(&self) -> (bool, Vec<u64>, i64) {
        (self.neg, self.d[..self.n].to_vec(), 64 * self.base as i64)
    }
    pub fn from_limbs(neg: bool, limbs: &[u64], exp: i64) -> Dy {
        // exp may be any integer: shift
        let mut r = Dy::zero();
        let mut n = limbs.len();
        while n > 0 && limbs[n - 1] == 0 {
            n -= 1;
        }
        if n == 0 {
            return r;
        }
        assert!(n + 1 <= CAP, "Dy overflow (from_limbs)");
        r.d[..n].copy_from_slice(&limbs[..n]);
        r.n = n;
        r.neg = neg;
        r.base = 0;
        r.norm();
        let e = i32::try_from(exp).expect("exponent range");
        r.mul_pow2(e)
    }
}

/// 2^q as an f64 for -1074 <= q <= 1023
#[inline]
pub fn pow2_f64(q: i32) -> f64 {
    assert!((-1074..=1023).contains(&q));
    if q >= -1022 {
        f64::from_bits(((q + 1023) as u64) << 52)
    } else {
        f64::from_bits(1u64 << (q + 1074))
    }
}

/// Exact validity predicate of a double-double (Definition 1.4 of Joldes et al. restricted to
/// finite words): both finite and hi == RN(hi + lo).  Cross-checked against the hardware sum.
pub fn dd_valid(hi: f64, lo: f64) -> bool {
    if !hi.is_finite() || !lo.is_finite() {
        return false;
    }
    let exact = Dy::from_dd(hi, lo).to_f64_rn().0;
    let hw = hi + lo;
    // a disagreement here is a failure of the oracle or of the hardware model
    assert!(
        exact.to_bits() == hw.to_bits() || (exact == 0.0 && hw == 0.0),
        "oracle/hardware disagreement on RN({:e}+{:e}): {:e} vs {:e}",
        hi,
        lo,
        exact,
        hw
    );
    hw == hi
}

/// Fast validity predicate (hardware only), for hot loops.
#[inline]
pub fn dd_valid_fast(hi: f64, lo: f64) -> bool {
    hi.is_finite() && lo.is_finite() && hi + lo == hi
}

#[cfg(test)]
mod tests {
    use super::*;

    #[test]
    fn basics() {
        let a = Dy::from_f64(1.5);
        let b = Dy::from_f64(-0.25);
        assert_eq!(a.add(&b).to_f64_rn(), (1.25, true));
        assert_eq!(a.mul(&b).to_f64_rn(), (-0.375, true));
        assert_eq!(a.sub(&a).sign(), 0);
        let t = Dy::from_f64(1.0).add_f64(2f64.powi(-53));
        assert_eq!(t.to_f64_rn(), (1.0, false));
        let t = Dy::from_f64(1.0 + 2f64.powi(-52)).add_f64(2f64.powi(-53));
        assert_eq!(t.to_f64_rn(), (1.0 + 2f64.powi(-51), false));
        let t = Dy::from_f64(f64::MAX).add_f64(2f64.powi(970));
        assert_eq!(t.to_f64_rn().0, f64::INFINITY);
        let t = Dy::from_f64(f64::MAX).add_f64(2f64.powi(969));
        assert_eq!(t.to_f64_rn().0, f64::MAX);
        let t = Dy::from_f64(5e-324).mul_f64(0.5);
        assert_eq!(t.to_f64_rn(), (0.0, false));
        let t = Dy::from_f64(5e-324).mul_f64(1.5);
        assert_eq!(t.to_f64_rn(), (1e-323, false));
        assert_eq!(Dy::from_f64(-2.5).floor().to_f64_rn().0, -3.0);
        assert_eq!(Dy::from_f64(-2.5).ceil().to_f64_rn().0, -2.0);
        assert_eq!(Dy::from_f64(-2.5).trunc().to_f64_rn().0, -2.0);
        assert_eq!(Dy::from_f64(-2.5).round_half_away().to_f64_rn().0, -3.0);
        assert_eq!(Dy::from_f64(2.5).round_half_away().to_f64_rn().0, 3.0);
        assert_eq!(Dy::from_f64(2.4999).round_half_away().to_f64_rn().0, 2.0);
        assert_eq!(Dy::from_f64(0.75).fract().to_f64_rn().0, 0.75);
        assert_eq!(Dy::from_i128(i128::MIN).to_i128(), Some(i128::MIN));
        assert_eq!(Dy::from_u128(u128::MAX).to_u128(), Some(u128::MAX));
        assert_eq!(Dy::from_u128(u128::MAX).to_i128(), None);
        assert_eq!(Dy::from_f64(1e300).msb(), Some(996));
        assert!(dd_valid(1.0, 2f64.powi(-53)));
        assert!(!dd_valid(1.0 + 2f64.powi(-52), 2f64.powi(-53)));
        assert!(dd_valid(1.0, -2f64.powi(-54)));
        assert!(!dd_valid(1.0, -2f64.powi(-53)));
    }
}
