//! Reference elementary functions as rigorous interval enclosures.  Inputs are exact (`Bf`,
//! typically the exact value hi+lo of a double-double); outputs are `Iv` enclosures whose
//! relative width is about 2^-(p-70) or better in the worst (cancelling) cases.
//!
//! Every series is evaluated in interval arithmetic with an explicit remainder bound, every
//! argument reduction uses interval enclosures of the constants, and functions that are
//! computed from an f64 first guess (ln, atan) only use the guess as a starting point: the
//! enclosure is valid for any guess, a bad guess only makes the code panic (never lie).

use crate::bf::{Bf, Dir, Iv};
use core::cmp::Ordering;
use std::cell::RefCell;
use std::collections::HashMap;

thread_local! {
    static CONSTS: RefCell<HashMap<(u8, u64), Iv>> = RefCell::new(HashMap::new());
}

fn cached(kind: u8, p: u64, f: impl FnOnce() -> Iv) -> Iv {
    if let Some(v) = CONSTS.with(|c| c.borrow().get(&(kind, p)).cloned()) {
        return v;
    }
    let v = f();
    CONSTS.with(|c| c.borrow_mut().insert((kind, p), v.clone()));
    v
}

fn one() -> Bf {
    Bf::from_i64(1)
}

/// sum_{j>=0} (+-1)^j / ((2j+1) q^(2j+1))  : atan(1/q) (alternating) or atanh(1/q)
fn inv_series(q: u64, alternating: bool, p: u64) -> Iv {
    let wp = p + 32;
    let mut sum = Iv::zero();
    let q2 = q * q;
    // term_j = 1 / ((2j+1) * q^(2j+1)); keep pw = 1/q^(2j+1) as an interval
    let mut pw = Iv::from_i64(1).div_small(q, wp);
    let mut j = 0u64;
    loop {
        let t = pw.div_small(2 * j + 1, wp);
        if alternating && j % 2 == 1 {
            sum = sum.sub(&t, wp);
        } else {
            sum = sum.add(&t, wp);
        }
        if t.hi.is_zero() || t.hi.msb() < -(wp as i64) - 8 {
            // remainder: alternating -> below the next term; atanh -> geometric with ratio 1/q^2 <= 1/9
            let next = pw.div_small(q2, wp).div_small(2 * j + 3, wp);
            let rem = next.hi.mul_small(2);
            sum = sum.widen(&rem, wp);
            break;
        }
        pw = pw.div_small(q2, wp);
        j += 1;
        assert!(j < 100_000);
    }
    sum
}

pub fn pi(p: u64) -> Iv {
    cached(0, p, || {
        // Machin: pi = 16 atan(1/5) - 4 atan(1/239)
        let a = inv_series(5, true, p + 8).mul_small(16, p + 40);
        let b = inv_series(239, true, p + 8).mul_small(4, p + 40);
        let v = a.sub(&b, p + 8);
        Iv { lo: v.lo.round(p, Dir::Down), hi: v.hi.round(p, Dir::Up) }
    })
}
pub fn ln2(p: u64) -> Iv {
    cached(1, p, || {
        let v = inv_series(3, false, p + 8).mul_small(2, p + 8);
        Iv { lo: v.lo.round(p, Dir::Down), hi: v.hi.round(p, Dir::Up) }
    })
}
pub fn ln10(p: u64) -> Iv {
    cached(2, p, || {
        // ln 10 = 3 ln 2 + ln(5/4) = 3 ln 2 + 2 atanh(1/9)
        let a = ln2(p + 8).mul_small(3, p + 8);
        let b = inv_series(9, false, p + 8).mul_small(2, p + 8);
        let v = a.add(&b, p + 8);
        Iv { lo: v.lo.round(p, Dir::Down), hi: v.hi.round(p, Dir::Up) }
    })
}

// ------------------------------------------------------------------------------------------ exp

/// enclosure of exp(t) for an exact point t, |t| < 2^40
pub fn exp_pt(t: &Bf, p: u64) -> Iv {
    if t.is_zero() {
        return Iv::from_i64(1);
    }
    assert!(t.msb() < 40, "exp_pt: argument too large");
    let wp = p + 64;
    // k = round(t / ln 2)
    let k = (t.approx_f64() / core::f64::consts::LN_2).round() as i64;
    let l2 = ln2(wp + 48);
    // r = t - k ln2  (interval)
    let r = Iv::point(t).sub(&l2.mul(&Iv::from_i64(k), wp + 48), wp);
    assert!(r.mag().approx_f64() < 0.75, "exp_pt: reduction failed");
    // halve s times
    let s: i64 = 12;
    let rs = r.mul_pow2(-s);
    // Taylor: sum_{n<=N} rs^n / n!
    let mut sum = Iv::from_i64(1);
    let mut term = Iv::from_i64(1);
    let mut n = 1u64;
    loop {
        term = term.mul(&rs, wp).div_small(n, wp);
        sum = sum.add(&term, wp);
        let m = term.mag();
        if m.is_zero() || m.msb() < -(wp as i64) - 8 {
            // remainder <= 2 * |next term|  (|rs| < 1/2)
            let rem = m.mul_small(2);
            sum = sum.widen(&rem, wp);
            break;
        }
        n += 1;
        assert!(n < 1000);
    }
    for _ in 0..s {
        sum = sum.sqr(wp);
    }
    let v = sum.mul_pow2(k);
    Iv { lo: v.lo.round(p, Dir::Down), hi: v.hi.round(p, Dir::Up) }
}

pub fn exp(x: &Iv, p: u64) -> Iv {
    Iv { lo: exp_pt(&x.lo, p).lo, hi: exp_pt(&x.hi, p).hi }
}

/// exp(t) - 1 with full relative accuracy
pub fn expm1_pt(t: &Bf, p: u64) -> Iv {
    if t.is_zero() {
        return Iv::zero();
    }
    if t.msb() < -24 {
        // series t + t^2/2 + ... on the exact t
        let wp = p + 32;
        let x = Iv::from_exact(t, wp);
        let mut sum = x.clone();
        let mut term = x.clone();
        let mut n = 2u64;
        loop {
            term = term.mul(&x, wp).div_small(n, wp);
            sum = sum.add(&term, wp);
            let m = term.mag();
            // stop when the term is below 2^-(wp) relative to |t|
            if m.is_zero() || m.msb() < t.msb() - wp as i64 - 8 {
                sum = sum.widen(&m.mul_small(2), wp);
                break;
            }
            n += 1;
            assert!(n < 1000);
        }
        return Iv { lo: sum.lo.round(p, Dir::Down), hi: sum.hi.round(p, Dir::Up) };
    }
    let e = exp_pt(t, p + 40);
    let v = e.sub(&Iv::from_i64(1), p + 40);
    Iv { lo: v.lo.round(p, Dir::Down), hi: v.hi.round(p, Dir::Up) }
}

// ------------------------------------------------------------------------------------------ ln

/// log1p(d) for a tiny exact d (|d| < 2^-20) by the Mercator series
fn log1p_series(d: &Bf, p: u64) -> Iv {
    if d.is_zero() {
        return Iv::zero();
    }
    assert!(d.msb() < -16, "log1p_series: argument not small");
    let wp = p + 32;
    let x = Iv::from_exact(d, wp);
    let mut sum = x.clone();
    let mut pw = x.clone();
    let mut n = 2u64;
    loop {
        pw = pw.mul(&x, wp);
        let t = pw.div_small(n, wp);
        if n % 2 == 0 {
            sum = sum.sub(&t, wp);
        } else {
            sum = sum.add(&t, wp);
        }
        let m = t.mag();
        if m.is_zero() || m.msb() < d.msb() - wp as i64 - 8 {
            // tail <= |d|^(n+1)/(n+1)/(1-|d|) <= 2 |t|
            sum = sum.widen(&m.mul_small(2), wp);
            break;
        }
        n += 1;
        assert!(n < 10_000);
    }
    Iv { lo: sum.lo.round(p, Dir::Down), hi: sum.hi.round(p, Dir::Up) }
}

/// ln(t) for an exact t > 0
pub fn ln_pt(t: &Bf, p: u64) -> Iv {
    assert!(t.sign() > 0, "ln of a non-positive number");
    let d = t.sub_exact(&one());
    if d.is_zero() {
        return Iv::zero();
    }
    if d.msb() < -40 {
        return log1p_series(&d, p);
    }
    let wp = p + 96;
    // first guess
    let mut y = Bf::from_f64(t.approx_log2() * core::f64::consts::LN_2);
    let tx = Iv::from_exact(t, wp);
    for _ in 0..4 {
        // u = t * exp(-y) ~ 1;   ln t = y + log1p(u - 1)
        let e = exp_pt(&y.neg(), wp);
        let u = tx.mul(&e, wp);
        let dd = u.sub(&Iv::from_i64(1), wp);
        let mag = dd.mag();
        if mag.is_zero() || mag.msb() < -30 {
            let l = Iv { lo: log1p_series(&dd.lo, wp).lo, hi: log1p_series(&dd.hi, wp).hi };
            let v = l.add_bf(&y, wp);
            return Iv { lo: v.lo.round(p, Dir::Down), hi: v.hi.round(p, Dir::Up) };
        }
        // refine the guess: y += (u-1) (Newton step), keep y short
        y = y.add_r(&Bf::from_f64(dd.approx_f64()), 80, Dir::Down);
    }
    panic!("ln_pt: first guess did not converge");
}

pub fn ln(x: &Iv, p: u64) -> Iv {
    Iv { lo: ln_pt(&x.lo, p).lo, hi: ln_pt(&x.hi, p).hi }
}

/// ln(1 + t), t > -1 exact
pub fn log1p_pt(t: &Bf, p: u64) -> Iv {
    if t.is_zero() {
        return Iv::zero();
    }
    if t.msb() < -40 {
        return log1p_series(t, p);
    }
    ln_pt(&t.add_exact(&one()), p)
}
pub fn log1p(x: &Iv, p: u64) -> Iv {
    Iv { lo: log1p_pt(&x.lo, p).lo, hi: log1p_pt(&x.hi, p).hi }
}

// ------------------------------------------------------------------------------------------ sin, cos

/// Taylor enclosures of (sin r, cos r) for an interval r with |r| <= 1.6
fn sincos_small(r: &Iv, p: u64) -> (Iv, Iv) {
    let wp = p + 32;
    let mag = r.mag();
    assert!(mag.is_zero() || mag.approx_f64() < 1.7, "sincos_small: argument not reduced");
    let r2 = r.sqr(wp);
    // sin: r - r^3/3! + ...   cos: 1 - r^2/2! + ...
    let mut s = r.clone();
    let mut c = Iv::from_i64(1);
    let mut ts = r.clone(); // r^(2j+1)/(2j+1)!
    let mut tc = Iv::from_i64(1); // r^(2j)/(2j)!
    let mut j = 1u64;
    loop {
        tc = tc.mul(&r2, wp).div_small((2 * j - 1) * (2 * j), wp);
        ts = ts.mul(&r2, wp).div_small((2 * j) * (2 * j + 1), wp);
        if j % 2 == 1 {
            c = c.sub(&tc, wp);
            s = s.sub(&ts, wp);
        } else {
            c = c.add(&tc, wp);
            s = s.add(&ts, wp);
        }
        let mc = tc.mag();
        let ms = ts.mag();
        // relative stopping rule for sin (result ~ r), absolute for cos (result ~ 1); terms decrease
        // geometrically once 2j > |r|^2, remainder of an alternating decreasing series <= next term <= this term
        let sin_done = ms.is_zero() || mag.is_zero() || ms.msb() < mag.msb() - wp as i64 - 8;
        let cos_done = mc.is_zero() || mc.msb() < -(wp as i64) - 8;
        if sin_done && cos_done && j >= 2 {
            s = s.widen(&ms, wp);
            c = c.widen(&mc, wp);
            break;
        }
        j += 1;
        assert!(j < 2000);
    }
    (s, c)
}

/// (sin t, cos t) for an exact t, |t| < 2^40
pub fn sincos_pt(t: &Bf, p: u64) -> (Iv, Iv) {
    if t.is_zero() {
        return (Iv::zero(), Iv::from_i64(1));
    }
    assert!(t.msb() < 40, "sincos_pt: argument too large");
    let wp = p + 64;
    let tf = t.approx_f64();
    if tf.abs() < 0.8 {
        let r = Iv::from_exact(t, wp + 64);
        let (s, c) = sincos_small(&r, wp);
        return (Iv { lo: s.lo.round(p, Dir::Down), hi: s.hi.round(p, Dir::Up) }, Iv { lo: c.lo.round(p, Dir::Down), hi: c.hi.round(p, Dir::Up) });
    }
    let k = (tf * core::f64::consts::FRAC_2_PI).round() as i64;
    // r = t - k*pi/2 with enough bits of pi that the cancellation (up to ~|t| 2^-130 for double-double inputs)
    // still leaves p bits: |k| < 2^41, so use wp + 260 bits of pi
    let ppi = wp + 260;
    let half_pi = pi(ppi).mul_pow2(-1);
    let r = Iv::point(t).sub(&half_pi.mul(&Iv::from_i64(k), ppi), ppi);
    let (s, c) = sincos_small(&r, wp);
    let (s, c) = match k.rem_euclid(4) {
        0 => (s, c),
        1 => (c, s.neg()),
        2 => (s.neg(), c.neg()),
        _ => (c.neg(), s),
    };
    (Iv { lo: s.lo.round(p, Dir::Down), hi: s.hi.round(p, Dir::Up) }, Iv { lo: c.lo.round(p, Dir::Down), hi: c.hi.round(p, Dir::Up) })
}

pub fn tan_pt(t: &Bf, p: u64) -> Iv {
    let (s, c) = sincos_pt(t, p + 16);
    assert!(!c.contains_zero(), "tan_pt: cosine enclosure contains zero");
    s.div(&c, p)
}

// ------------------------------------------------------------------------------------------ atan

/// atan(d) for an interval of tiny values |d| < 2^-20: d - d^3/3 + ...  (odd, increasing)
fn atan_series_pt(d: &Bf, p: u64) -> Iv {
    if d.is_zero() {
        return Iv::zero();
    }
    assert!(d.msb() < -16);
    let wp = p + 32;
    let x = Iv::from_exact(d, wp);
    let x2 = x.sqr(wp);
    let mut sum = x.clone();
    let mut pw = x.clone();
    let mut j = 1u64;
    loop {
        pw = pw.mul(&x2, wp);
        let t = pw.div_small(2 * j + 1, wp);
        if j % 2 == 1 {
            sum = sum.sub(&t, wp);
        } else {
            sum = sum.add(&t, wp);
        }
        let m = t.mag();
        if m.is_zero() || m.msb() < d.msb() - wp as i64 - 8 {
            sum = sum.widen(&m, wp);
            break;
        }
        j += 1;
        assert!(j < 10_000);
    }
    sum
}

/// atan(t) for an exact t
pub fn atan_pt(t: &Bf, p: u64) -> Iv {
    if t.is_zero() {
        return Iv::zero();
    }
    let wp = p + 96;
    if t.msb() < -40 {
        let v = atan_series_pt(t, wp);
        return Iv { lo: v.lo.round(p, Dir::Down), hi: v.hi.round(p, Dir::Up) };
    }
    // first guess y (an f64, exact as Bf); atan t = y + atan((t - tan y)/(1 + t tan y))
    let tf = t.approx_f64();
    let y0 = if t.msb() > 1000 { core::f64::consts::FRAC_PI_2.copysign(tf) } else { tf.atan() };
    let y = Bf::from_f64(y0);
    let ty = tan_pt(&y, wp);
    let tx = Iv::from_exact(t, wp);
    let num = tx.sub(&ty, wp);
    let den = tx.mul(&ty, wp).add(&Iv::from_i64(1), wp);
    assert!(den.is_pos(), "atan_pt: denominator not positive");
    let d = num.div(&den, wp);
    assert!(d.mag().is_zero() || d.mag().msb() < -20, "atan_pt: first guess too coarse");
    let a = Iv { lo: atan_series_pt(&d.lo, wp).lo, hi: atan_series_pt(&d.hi, wp).hi };
    let v = a.add_bf(&y, wp);
    Iv { lo: v.lo.round(p, Dir::Down), hi: v.hi.round(p, Dir::Up) }
}
pub fn atan(x: &Iv, p: u64) -> Iv {
    Iv { lo: atan_pt(&x.lo, p).lo, hi: atan_pt(&x.hi, p).hi }
}

/// four-quadrant angle of the point (x, y) for sign-definite intervals (either may be an exact zero point)
pub fn atan2(y: &Iv, x: &Iv, p: u64) -> Iv {
    let wp = p + 32;
    let ypos = y.is_pos();
    let yneg = y.is_neg();
    let yzero = y.lo.is_zero() && y.hi.is_zero();
    let xpos = x.is_pos();
    let xneg = x.is_neg();
    let xzero = x.lo.is_zero() && x.hi.is_zero();
    assert!((ypos || yneg || yzero) && (xpos || xneg || xzero), "atan2: operand interval straddles zero");
    assert!(!(yzero && xzero));
    let pi_ = pi(wp);
    let v = if xzero {
        let h = pi_.mul_pow2(-1);
        if ypos {
            h
        } else {
            h.neg()
        }
    } else if yzero {
        if xpos {
            Iv::zero()
        } else {
            pi_
        }
    } else {
        // use the smaller ratio
        let ay = y.abs();
        let ax = x.abs();
        let base = if ax.hi.lt(&ay.lo) {
            // |x| < |y| for sure: measure from the y axis
            let q = ax.div(&ay, wp);
            pi_.mul_pow2(-1).sub(&atan(&q, wp), wp)
        } else {
            let q = ay.div(&ax, wp);
            atan(&q, wp)
        };
        // base = atan(|y|/|x|) in (0, pi/2)
        match (xpos, ypos) {
            (true, true) => base,
            (true, false) => base.neg(),
            (false, true) => pi_.sub(&base, wp),
            (false, false) => base.sub(&pi_, wp),
        }
    };
    Iv { lo: v.lo.round(p, Dir::Down), hi: v.hi.round(p, Dir::Up) }
}

/// asin(t), |t| <= 1 exact
pub fn asin_pt(t: &Bf, p: u64) -> Iv {
    let wp = p + 32;
    let o = one();
    let a = o.sub_exact(t); // 1 - t >= 0
    let b = o.add_exact(t); // 1 + t >= 0
    assert!(a.sign() >= 0 && b.sign() >= 0, "asin: |t| > 1");
    let c = Iv::from_exact(&a.mul_exact(&b), wp).sqrt(wp);
    atan2(&Iv::from_exact(t, wp), &c, p)
}
pub fn acos_pt(t: &Bf, p: u64) -> Iv {
    let wp = p + 32;
    let o = one();
    let a = o.sub_exact(t);
    let b = o.add_exact(t);
    assert!(a.sign() >= 0 && b.sign() >= 0, "acos: |t| > 1");
    let c = Iv::from_exact(&a.mul_exact(&b), wp).sqrt(wp);
    atan2(&c, &Iv::from_exact(t, wp), p)
}

// ------------------------------------------------------------------------------------------ hyperbolic

fn odd_series(t: &Bf, p: u64, alternating: bool, div_by_index: bool) -> Iv {
    // sinh: sum t^(2j+1)/(2j+1)!   (alternating=false, div_by_index=false)
    // atanh: sum t^(2j+1)/(2j+1)   (alternating=false, div_by_index=true)
    let wp = p + 32;
    let x = Iv::from_exact(t, wp);
    let x2 = x.sqr(wp);
    let mut sum = x.clone();
    let mut term = x.clone();
    let mut j = 1u64;
    loop {
        term = term.mul(&x2, wp);
        let t_j = if div_by_index {
            term.div_small(2 * j + 1, wp)
        } else {
            term = term.div_small((2 * j) * (2 * j + 1), wp);
            term.clone()
        };
        if alternating && j % 2 == 1 {
            sum = sum.sub(&t_j, wp);
        } else {
            sum = sum.add(&t_j, wp);
        }
        let m = t_j.mag();
        if m.is_zero() || m.msb() < t.msb() - wp as i64 - 8 {
            sum = sum.widen(&m.mul_small(2), wp);
            break;
        }
        j += 1;
        assert!(j < 10_000);
    }
    sum
}

pub fn sinh_pt(t: &Bf, p: u64) -> Iv {
    if t.is_zero() {
        return Iv::zero();
    }
    if t.msb() < -24 {
        let v = odd_series(t, p + 8, false, false);
        return Iv { lo: v.lo.round(p, Dir::Down), hi: v.hi.round(p, Dir::Up) };
    }
    let wp = p + 80;
    let e = exp_pt(t, wp);
    let ei = Iv::from_i64(1).div(&e, wp);
    let v = e.sub(&ei, wp).mul_pow2(-1);
    Iv { lo: v.lo.round(p, Dir::Down), hi: v.hi.round(p, Dir::Up) }
}
pub fn cosh_pt(t: &Bf, p: u64) -> Iv {
    let wp = p + 16;
    let e = exp_pt(t, wp);
    let ei = Iv::from_i64(1).div(&e, wp);
    let v = e.add(&ei, wp).mul_pow2(-1);
    Iv { lo: v.lo.round(p, Dir::Down), hi: v.hi.round(p, Dir::Up) }
}
pub fn tanh_pt(t: &Bf, p: u64) -> Iv {
    if t.is_zero() {
        return Iv::zero();
    }
    let s = sinh_pt(t, p + 16);
    let c = cosh_pt(t, p + 16);
    s.div(&c, p)
}
pub fn asinh_pt(t: &Bf, p: u64) -> Iv {
    if t.is_zero() {
        return Iv::zero();
    }
    let wp = p + 32;
    let a = Iv::from_exact(&t.abs(), wp);
    // u = a + a^2 / (1 + sqrt(1 + a^2));  asinh = log1p(u)
    let a2 = a.sqr(wp);
    let s = a2.add(&Iv::from_i64(1), wp).sqrt(wp);
    let u = a.add(&a2.div(&s.add(&Iv::from_i64(1), wp), wp), wp);
    let v = log1p(&u, p);
    if t.sign() < 0 {
        v.neg()
    } else {
        v
    }
}
/// acosh(t), t >= 1 exact
pub fn acosh_pt(t: &Bf, p: u64) -> Iv {
    let wp = p + 32;
    let d = t.sub_exact(&one());
    assert!(d.sign() >= 0, "acosh: t < 1");
    if d.is_zero() {
        return Iv::zero();
    }
    // u = d + sqrt(d (t+1))
    let prod = d.mul_exact(&t.add_exact(&one()));
    let u = Iv::from_exact(&d, wp).add(&Iv::from_exact(&prod, wp).sqrt(wp), wp);
    log1p(&u, p)
}
/// atanh(t), |t| < 1 exact
pub fn atanh_pt(t: &Bf, p: u64) -> Iv {
    if t.is_zero() {
        return Iv::zero();
    }
    if t.msb() < -24 {
        let v = odd_series(t, p + 8, false, true);
        return Iv { lo: v.lo.round(p, Dir::Down), hi: v.hi.round(p, Dir::Up) };
    }
    let wp = p + 32;
    let a = t.abs();
    let den = one().sub_exact(&a);
    assert!(den.sign() > 0, "atanh: |t| >= 1");
    let u = Iv::from_exact(&a.mul_pow2(1), wp).div(&Iv::from_exact(&den, wp), wp);
    let v = log1p(&u, p + 8).mul_pow2(-1);
    if t.sign() < 0 {
        v.neg()
    } else {
        v
    }
}

// ------------------------------------------------------------------------------------------ powers, logs

/// x^n for integer n (any sign), exact x != 0
pub fn powi_pt(x: &Bf, n: i64, p: u64) -> Iv {
    let wp = p + 80;
    let mut result = Iv::from_i64(1);
    let mut base = Iv::from_exact(x, wp);
    let mut e = n.unsigned_abs();
    while e > 0 {
        if e & 1 == 1 {
            result = result.mul(&base, wp);
        }
        e >>= 1;
        if e > 0 {
            base = base.sqr_signed(wp);
        }
    }
    let v = if n < 0 { Iv::from_i64(1).div(&result, wp) } else { result };
    Iv { lo: v.lo.round(p, Dir::Down), hi: v.hi.round(p, Dir::Up) }
}

impl Iv {
    /// square of a sign-definite or point interval (used by powi): same as sqr
    pub fn sqr_signed(&self, p: u64) -> Iv {
        self.sqr(p)
    }
}

/// x^y = exp(y ln x) for exact x > 0, exact y
pub fn pow_pt(x: &Bf, y: &Bf, p: u64) -> Iv {
    let wp = p + 64;
    let l = ln_pt(x, wp);
    let a = l.mul(&Iv::from_exact(y, wp), wp);
    exp(&a, p)
}
pub fn exp2_pt(t: &Bf, p: u64) -> Iv {
    let wp = p + 64;
    let a = ln2(wp).mul(&Iv::from_exact(t, wp), wp);
    exp(&a, p)
}
pub fn log2_pt(t: &Bf, p: u64) -> Iv {
    let wp = p + 16;
    ln_pt(t, wp).div(&ln2(wp), p)
}
pub fn log10_pt(t: &Bf, p: u64) -> Iv {
    let wp = p + 16;
    ln_pt(t, wp).div(&ln10(wp), p)
}
pub fn sqrt_pt(t: &Bf, p: u64) -> Iv {
    Iv::from_exact(t, p + 8).sqrt(p)
}
