//! "Organic" operands: values that are themselves results of API calls (chain states), so that the
//! per-call properties are also judged on states that are not initial states.  Deterministic:
//! breadth-first from the C01 seeds, exact-state deduplication, sorted.
use crate::api::{st, Op};
use crate::props::c01::{chain_ops, claimed_operand, seeds};

fn canon_state(w: [f64; 2]) -> [u64; 2] {
    [crate::api::canon(w[0].to_bits()), crate::api::canon(w[1].to_bits())]
}

/// all claimed operands reachable from the seeds in exactly <= depth steps (depth 1 or 2)
pub fn states(depth: usize) -> Vec<[f64; 2]> {
    let sd = seeds();
    let partners: Vec<[f64; 2]> = sd.iter().step_by(2).cloned().collect();
    let (un, bin) = chain_ops();
    let mut visited: std::collections::BTreeSet<[u64; 2]> = sd.iter().map(|w| canon_state(*w)).collect();
    let mut frontier: Vec<[f64; 2]> = sd.clone();
    for _ in 0..depth {
        let chunks: Vec<Vec<[u64; 2]>> = std::thread::scope(|s| {
            let nthreads = std::thread::available_parallelism().map(|n| n.get()).unwrap_or(4);
            let per = frontier.len().div_ceil(nthreads).max(1);
            let mut hs = vec![];
            for part in frontier.chunks(per) {
                let (un, bin, partners) = (&un, &bin, &partners);
                hs.push(s.spawn(move || {
                    let mut out: Vec<[u64; 2]> = vec![];
                    let mut push = |r: crate::api::Res| {
                        if r.k == 0 {
                            let w = r.dd();
                            if claimed_operand(w) {
                                out.push(canon_state(w));
                            }
                        }
                    };
                    for &x in part {
                        for &op in un.iter() {
                            push(st::call(op, x, [0.0, 0.0]));
                        }
                        for &op in bin.iter() {
                            if op == Op::new_add || op == Op::new_sub || op == Op::new_mul || op == Op::new_div {
                                continue;
                            }
                            for &p in partners.iter() {
                                push(st::call(op, x, p));
                                if !op.rhs_f64() {
                                    push(st::call(op, p, x));
                                }
                            }
                        }
                    }
                    out.sort();
                    out.dedup();
                    out
                }));
            }
            hs.into_iter().map(|h| h.join().unwrap()).collect()
        });
        let mut next: Vec<[u64; 2]> = vec![];
        for c in chunks {
            for s in c {
                if visited.insert(s) {
                    next.push(s);
                }
            }
        }
        next.sort();
        frontier = next.iter().map(|s| [f64::from_bits(s[0]), f64::from_bits(s[1])]).collect();
    }
    visited.into_iter().map(|s| [f64::from_bits(s[0]), f64::from_bits(s[1])]).collect()
}
