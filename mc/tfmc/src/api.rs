//! Uniform access to the public API of the crate under test, instantiated twice:
//! `st` = the default configuration (std fma), `ns` = the no_std configuration (libm fma).

use crate::run::api;

/// A result of any API call, in comparable form.
#[derive(Clone, Copy, Debug, PartialEq, Eq)]
pub struct Res {
    /// 0 = TwoFloat, 1 = bool, 2 = (TwoFloat, TwoFloat), 3 = Option<Ordering>, 6 = f64, 9 = panic
    pub k: u8,
    pub w: [u64; 4],
}

pub const NAN_CANON: u64 = 0x7ff8_0000_0000_0000;

#[inline]
pub fn canon(w: u64) -> u64 {
    if f64::from_bits(w).is_nan() {
        NAN_CANON
    } else {
        w
    }
}

impl Res {
    pub fn dd(&self) -> [f64; 2] {
        [f64::from_bits(self.w[0]), f64::from_bits(self.w[1])]
    }
    /// equality with NaN == NaN
    pub fn same(&self, o: &Res) -> bool {
        self.k == o.k && (0..4).all(|i| canon(self.w[i]) == canon(o.w[i]))
    }
    pub fn show(&self) -> String {
        match self.k {
            0 => format!("TwoFloat({})", crate::util::show_dd([f64::from_bits(self.w[0]), f64::from_bits(self.w[1])])),
            1 => format!("bool({})", self.w[0] != 0),
            2 => format!(
                "({}, {})",
                crate::util::show_dd([f64::from_bits(self.w[0]), f64::from_bits(self.w[1])]),
                crate::util::show_dd([f64::from_bits(self.w[2]), f64::from_bits(self.w[3])])
            ),
            3 => format!("ordering({})", self.w[0] as i64),
            6 => format!("f64({:e})", f64::from_bits(self.w[0])),
            9 => "panic".to_string(),
            _ => format!("{:?}", self),
        }
    }
}

macro_rules! ops_enum {
    ($($name:ident),* $(,)?) => {
        #[derive(Clone, Copy, Debug, PartialEq, Eq, Hash, PartialOrd, Ord)]
        #[allow(non_camel_case_types)]
        pub enum Op { $($name),* }
        impl Op {
            pub const ALL: &'static [Op] = &[$(Op::$name),*];
            pub fn name(self) -> &'static str { match self { $(Op::$name => stringify!($name)),* } }
            pub fn from_name(s: &str) -> Option<Op> { match s { $(stringify!($name) => Some(Op::$name),)* _ => None } }
        }
    };
}

ops_enum!(
    // unary TwoFloat -> TwoFloat
    neg, abs, signum, floor, ceil, round, trunc, fract, recip, sqrt, cbrt, exp, exp2, exp_m1, ln, ln_1p, log2, log10,
    sin, cos, tan, asin, acos, atan, sinh, cosh, tanh, asinh, acosh, atanh, to_degrees, to_radians,
    powi2, powi3, powi_m2, powi5, powi_m7,
    // binary TwoFloat x TwoFloat -> TwoFloat
    add, sub, mul, div, rem, add_assign, sub_assign, mul_assign, div_assign, rem_assign,
    min, max, copysign, hypot, powf, log, atan2, div_euclid, rem_euclid,
    // TwoFloat x f64 (second operand's high word is the f64)
    add_f, sub_f, mul_f, div_f, rem_f, add_assign_f, sub_assign_f, mul_assign_f, div_assign_f, rem_assign_f,
    f_add, f_sub, f_mul, f_div, f_rem,
    // f64 x f64 constructors (high words of both operands)
    new_add, new_sub, new_mul, new_div, from_f64,
    // TwoFloat x i32 (second operand's high word converted)
    powi,
    // pair result
    sin_cos,
);

impl Op {
    pub fn arity(self) -> usize {
        use Op::*;
        match self {
            neg | abs | signum | floor | ceil | round | trunc | fract | recip | sqrt | cbrt | exp | exp2 | exp_m1 | ln | ln_1p | log2 | log10 | sin | cos | tan | asin | acos | atan | sinh | cosh | tanh
            | asinh | acosh | atanh | to_degrees | to_radians | powi2 | powi3 | powi_m2 | powi5 | powi_m7 | sin_cos | from_f64 => 1,
            _ => 2,
        }
    }
    /// second operand is an f64 (its high word)
    pub fn rhs_f64(self) -> bool {
        use Op::*;
        matches!(self, add_f | sub_f | mul_f | div_f | rem_f | add_assign_f | sub_assign_f | mul_assign_f | div_assign_f | rem_assign_f | f_add | f_sub | f_mul | f_div | f_rem)
    }
    pub fn is_ctor(self) -> bool {
        use Op::*;
        matches!(self, new_add | new_sub | new_mul | new_div | from_f64)
    }
    pub fn is_math(self) -> bool {
        use Op::*;
        matches!(
            self,
            sqrt | cbrt | exp | exp2 | exp_m1 | ln | ln_1p | log2 | log10 | sin | cos | tan | asin | acos | atan | sinh | cosh | tanh | asinh | acosh | atanh | hypot | powf | log | atan2 | sin_cos
        )
    }
}

macro_rules! api_mod {
    ($m:ident, $k:ident) => {
        pub mod $m {
            use super::{api, Op, Res};
            pub use $k::TwoFloat as TF;

            /// Build a TwoFloat from raw words (the type is #[repr(C)] {hi: f64, lo: f64}).
            #[inline(always)]
            pub fn mk(w: [f64; 2]) -> TF {
                // SAFETY: TwoFloat is #[repr(C)] with exactly two f64 fields (src/lib.rs).
                unsafe { core::mem::transmute::<[f64; 2], TF>(w) }
            }
            #[inline(always)]
            pub fn wd(x: TF) -> [f64; 2] {
                [x.hi(), x.lo()]
            }
            #[inline(always)]
            fn r0(x: TF) -> Res {
                Res { k: 0, w: [x.hi().to_bits(), x.lo().to_bits(), 0, 0] }
            }

            /// One API call. `a`, `b` are operand words; for f64 operands only the high word is used.
            pub fn call(op: Op, a: [f64; 2], b: [f64; 2]) -> Res {
                let r = api(|| call_raw(op, a, b));
                match r {
                    Ok(r) => r,
                    Err(_) => Res { k: 9, w: [0; 4] },
                }
            }

            /// Entry points that do not return a TwoFloat (conversions, comparisons, text), reduced to words.
            /// kind: 0 from_i128(bits of a) 1 from_u128 2 from_i64 3 from_u64 4 to_i128 5 to_u128 6 to_i64 7 to_u64
            ///       8 to_i32 9 to_u8 10 partial_cmp/eq/lt/le(a,b) 11 partial_cmp with f64 b[0] both orders
            ///       12 Display/LowerExp text hash 13 is_valid/no_overlap/sign queries 14 f64/f32 from
            pub fn ext(kind: u8, a: [f64; 2], b: [f64; 2]) -> Res {
                use core::convert::TryFrom;
                let r = api(|| {
                    let x = mk(a);
                    let y = mk(b);
                    let bits = (a[0].to_bits() as u128) | ((a[1].to_bits() as u128) << 64);
                    let oi = |v: Option<i128>| match v {
                        Some(v) => [1, v as u128 as u64, ((v as u128) >> 64) as u64, 0],
                        None => [0, 0, 0, 0],
                    };
                    let w: [u64; 4] = match kind {
                        0 => {
                            let t = TF::from(bits as i128);
                            [t.hi().to_bits(), t.lo().to_bits(), 0, 0]
                        }
                        1 => {
                            let t = TF::from(bits);
                            [t.hi().to_bits(), t.lo().to_bits(), 0, 0]
                        }
                        2 => {
                            let t = TF::from(bits as i64);
                            [t.hi().to_bits(), t.lo().to_bits(), 0, 0]
                        }
                        3 => {
                            let t = TF::from(bits as u64);
                            [t.hi().to_bits(), t.lo().to_bits(), 0, 0]
                        }
                        4 => oi(i128::try_from(x).ok()),
                        5 => match u128::try_from(x).ok() {
                            Some(v) => [1, v as u64, (v >> 64) as u64, 0],
                            None => [0, 0, 0, 0],
                        },
                        6 => oi(i64::try_from(x).ok().map(|v| v as i128)),
                        7 => oi(u64::try_from(x).ok().map(|v| v as i128)),
                        8 => oi(i32::try_from(&x).ok().map(|v| v as i128)),
                        9 => oi(u8::try_from(x).ok().map(|v| v as i128)),
                        10 => {
                            let c = match x.partial_cmp(&y) {
                                None => 9,
                                Some(o) => (o as i8 + 1) as u64,
                            };
                            [c, (x == y) as u64, (x < y) as u64 | (((x <= y) as u64) << 1) | (((x > y) as u64) << 2) | (((x >= y) as u64) << 3), 0]
                        }
                        11 => {
                            let f = b[0];
                            let c1 = match x.partial_cmp(&f) {
                                None => 9,
                                Some(o) => (o as i8 + 1) as u64,
                            };
                            let c2 = match f.partial_cmp(&x) {
                                None => 9,
                                Some(o) => (o as i8 + 1) as u64,
                            };
                            [c1, c2, (x == f) as u64 | (((f == x) as u64) << 1), 0]
                        }
                        12 => {
                            let s = format!("{} | {:+e} | {:.3} | {:E}", x, x, x, x);
                            let mut h = 0xcbf29ce484222325u64;
                            for byte in s.bytes() {
                                h = (h ^ byte as u64).wrapping_mul(0x100000001b3);
                            }
                            [h, s.len() as u64, 0, 0]
                        }
                        13 => [x.is_valid() as u64, $k::no_overlap(a[0], a[1]) as u64, x.is_sign_positive() as u64 | ((x.is_sign_negative() as u64) << 1), TF::try_from((a[0], a[1])).is_ok() as u64],
                        _ => [f64::from(x).to_bits(), f32::from(x).to_bits() as u64, 0, 0],
                    };
                    w
                });
                match r {
                    Ok(w) => Res { k: 7, w },
                    Err(_) => Res { k: 9, w: [0; 4] },
                }
            }

            #[inline]
            pub fn call_raw(op: Op, a: [f64; 2], b: [f64; 2]) -> Res {
                let x = mk(a);
                let y = mk(b);
                let f = b[0];
                match op {
                    Op::neg => r0(-x),
                    Op::abs => r0(x.abs()),
                    Op::signum => r0(x.signum()),
                    Op::floor => r0(x.floor()),
                    Op::ceil => r0(x.ceil()),
                    Op::round => r0(x.round()),
                    Op::trunc => r0(x.trunc()),
                    Op::fract => r0(x.fract()),
                    Op::recip => r0(x.recip()),
                    Op::sqrt => r0(x.sqrt()),
                    Op::cbrt => r0(x.cbrt()),
                    Op::exp => r0(x.exp()),
                    Op::exp2 => r0(x.exp2()),
                    Op::exp_m1 => r0(x.exp_m1()),
                    Op::ln => r0(x.ln()),
                    Op::ln_1p => r0(x.ln_1p()),
                    Op::log2 => r0(x.log2()),
                    Op::log10 => r0(x.log10()),
                    Op::sin => r0(x.sin()),
                    Op::cos => r0(x.cos()),
                    Op::tan => r0(x.tan()),
                    Op::asin => r0(x.asin()),
                    Op::acos => r0(x.acos()),
                    Op::atan => r0(x.atan()),
                    Op::sinh => r0(x.sinh()),
                    Op::cosh => r0(x.cosh()),
                    Op::tanh => r0(x.tanh()),
                    Op::asinh => r0(x.asinh()),
                    Op::acosh => r0(x.acosh()),
                    Op::atanh => r0(x.atanh()),
                    Op::to_degrees => r0(x.to_degrees()),
                    Op::to_radians => r0(x.to_radians()),
                    Op::powi2 => r0(x.powi(2)),
                    Op::powi3 => r0(x.powi(3)),
                    Op::powi_m2 => r0(x.powi(-2)),
                    Op::powi5 => r0(x.powi(5)),
                    Op::powi_m7 => r0(x.powi(-7)),
                    Op::add => r0(x + y),
                    Op::sub => r0(x - y),
                    Op::mul => r0(x * y),
                    Op::div => r0(x / y),
                    Op::rem => r0(x % y),
                    Op::add_assign => {
                        let mut t = x;
                        t += y;
                        r0(t)
                    }
                    Op::sub_assign => {
                        let mut t = x;
                        t -= y;
                        r0(t)
                    }
                    Op::mul_assign => {
                        let mut t = x;
                        t *= y;
                        r0(t)
                    }
                    Op::div_assign => {
                        let mut t = x;
                        t /= y;
                        r0(t)
                    }
                    Op::rem_assign => {
                        let mut t = x;
                        t %= y;
                        r0(t)
                    }
                    Op::min => r0(x.min(y)),
                    Op::max => r0(x.max(y)),
                    Op::copysign => r0(x.copysign(&y)),
                    Op::hypot => r0(x.hypot(y)),
                    Op::powf => r0(x.powf(y)),
                    Op::log => r0(x.log(y)),
                    Op::atan2 => r0(x.atan2(y)),
                    Op::div_euclid => r0(x.div_euclid(y)),
                    Op::rem_euclid => r0(x.rem_euclid(y)),
                    Op::add_f => r0(x + f),
                    Op::sub_f => r0(x - f),
                    Op::mul_f => r0(x * f),
                    Op::div_f => r0(x / f),
                    Op::rem_f => r0(x % f),
                    Op::add_assign_f => {
                        let mut t = x;
                        t += f;
                        r0(t)
                    }
                    Op::sub_assign_f => {
                        let mut t = x;
                        t -= f;
                        r0(t)
                    }
                    Op::mul_assign_f => {
                        let mut t = x;
                        t *= f;
                        r0(t)
                    }
                    Op::div_assign_f => {
                        let mut t = x;
                        t /= f;
                        r0(t)
                    }
                    Op::rem_assign_f => {
                        let mut t = x;
                        t %= f;
                        r0(t)
                    }
                    Op::f_add => r0(f + x),
                    Op::f_sub => r0(f - x),
                    Op::f_mul => r0(f * x),
                    Op::f_div => r0(f / x),
                    Op::f_rem => r0(f % x),
                    Op::new_add => r0(TF::new_add(a[0], b[0])),
                    Op::new_sub => r0(TF::new_sub(a[0], b[0])),
                    Op::new_mul => r0(TF::new_mul(a[0], b[0])),
                    Op::new_div => r0(TF::new_div(a[0], b[0])),
                    Op::from_f64 => r0(TF::from(a[0])),
                    Op::powi => r0(x.powi(b[0] as i32)),
                    Op::sin_cos => {
                        let (s, c) = x.sin_cos();
                        Res { k: 2, w: [s.hi().to_bits(), s.lo().to_bits(), c.hi().to_bits(), c.lo().to_bits()] }
                    }
                }
            }
        }
    };
}

api_mod!(st, twofloat);
#[cfg(feature = "nostd_cfg")]
api_mod!(ns, tf_nostd);
