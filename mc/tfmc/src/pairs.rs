//! Structured enumeration of operand pairs: unit alphabets scaled to (e0, e0+delta).
use crate::run::{Local, Runner};
use tfref::alpha::dd_scale;

pub struct PairPlan {
    /// alphabets with high-word exponent 0 (|hi| in [1,2))
    pub ua: Vec<[f64; 2]>,
    pub ub: Vec<[f64; 2]>,
    pub e0s: Vec<i32>,
    pub deltas: Vec<i32>,
    /// admissible exponent range of the scaled high words
    pub emin: i32,
    pub emax: i32,
    /// extra operands used unscaled (zeros)
    pub extra_a: Vec<[f64; 2]>,
    pub extra_b: Vec<[f64; 2]>,
}

impl PairPlan {
    pub fn nchunks(&self) -> usize {
        self.e0s.len() * self.deltas.len()
    }
    /// number of pairs that will be generated (exact count requires scaling; computed by running)
    pub fn run<F>(&self, r: &mut Runner, phase: &str, index_base: u64, f: F) -> u64
    where
        F: Fn(&mut Local, u64, [f64; 2], [f64; 2]) + Sync,
    {
        let nd = self.deltas.len();
        let per_chunk = ((self.ua.len() + self.extra_a.len()) * (self.ub.len() + self.extra_b.len())) as u64;
        let states = std::sync::atomic::AtomicU64::new(0);
        r.par(phase, self.nchunks(), 0, |c, l| {
            let e0 = self.e0s[c / nd];
            let d = self.deltas[c % nd];
            let eb = e0 + d;
            if e0 < self.emin || e0 > self.emax || eb < self.emin || eb > self.emax {
                return;
            }
            let mut av: Vec<[f64; 2]> = self.ua.iter().filter_map(|&v| dd_scale(v, e0)).collect();
            let mut bv: Vec<[f64; 2]> = self.ub.iter().filter_map(|&v| dd_scale(v, eb)).collect();
            // zero operands only once per e0 (delta index 0) to avoid re-judging identical pairs
            if c % nd == 0 {
                av.extend(self.extra_a.iter().cloned());
            }
            bv.extend(self.extra_b.iter().cloned());
            let base = index_base + (c as u64) * per_chunk;
            let mut i = 0u64;
            for a in &av {
                for b in &bv {
                    f(l, base + i, *a, *b);
                    i += 1;
                }
            }
            states.fetch_add(i, std::sync::atomic::Ordering::Relaxed);
        });
        let s = states.into_inner();
        r.states += s;
        if let Some(p) = r.phases.last_mut() {
            p["states"] = serde_json::json!(s);
        }
        index_base + (self.nchunks() as u64) * per_chunk
    }
}

pub fn dense_deltas(dense: i32, sparse: &[i32]) -> Vec<i32> {
    let mut v: Vec<i32> = (-dense..=dense).collect();
    for &s in sparse {
        v.push(s);
        v.push(-s);
    }
    v
}
