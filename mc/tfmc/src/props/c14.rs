//! C14 — exponential family: accuracy floors, exact points, overflow and sign rules.
use crate::api::st;
use crate::fx::{bfx, grid, grid_thin, is_invalid, judge_tol, words};
use crate::grid::{dedup, with_los};
use crate::run::{api, Local, Runner, Verdict};
use crate::util::show_dd;
use core::cmp::Ordering;
use serde_json::json;
use tfref::bf::{Bf, Iv};
use tfref::big::dd_valid_fast;
use tfref::rf;

fn cmp_i(v: &Bf, k: i64) -> Ordering {
    v.cmp(&Bf::from_i64(k))
}
fn le_f(v: &Bf, f: f64) -> bool {
    v.le(&Bf::from_f64(f))
}

/// call: 0 exp, 1 exp2, 2 exp_m1
pub fn judge1(call: usize, x: [f64; 2], l: Option<&mut Local>) -> Verdict {
    let name = ["exp", "exp2", "exp_m1"][call];
    let args = words(x);
    if !dd_valid_fast(x[0], x[1]) {
        return Verdict::Skip;
    }
    let t = st::mk(x);
    let r = match api(|| match call {
        0 => t.exp(),
        1 => t.exp2(),
        _ => t.exp_m1(),
    }) {
        Ok(r) => [r.hi(), r.lo()],
        Err(m) => return Verdict::fail("no_panic", name, &args, format!("panic: {}", m), "a value for every valid argument".into(), "panic").with_region(&[region_quarter(x)]),
    };
    let v = bfx(x);
    match call {
        0 => {
            if v.is_zero() {
                return if r[0] == 1.0 && r[1] == 0.0 { Verdict::Pass } else { Verdict::fail("exp(0)=1", name, &args, show_dd(r), "1".into(), "wrong_value") };
            }
            if cmp_i(&v, -750) != Ordering::Greater {
                return if r[0] == 0.0 && r[1] == 0.0 { Verdict::Pass } else { Verdict::fail("exp(x<=-750)=0", name, &args, show_dd(r), "exactly 0".into(), "wrong_value") };
            }
            if cmp_i(&v, 710) != Ordering::Less {
                return if !r[0].is_finite() { Verdict::Pass } else { Verdict::fail("exp(x>=710) non-finite", name, &args, show_dd(r), "a non-finite high word".into(), "finite_for_overflow") };
            }
            if cmp_i(&v, -600) == Ordering::Less || cmp_i(&v, 700) == Ordering::Greater {
                return Verdict::Skip;
            }
            judge_tol("exp: 2^-100 rel", name, &args, r, |p| {
                let e = rf::exp_pt(&v, p);
                let tol = e.abs().mul_pow2(-100);
                Some((e, tol))
            }, l)
        }
        1 => {
            if x[1] == 0.0 && x[0].fract() == 0.0 && x[0].abs() <= 1022.0 {
                let want = 2f64.powi(x[0] as i32);
                return if r[0] == want && r[1] == 0.0 { Verdict::Pass } else { Verdict::fail("exp2(k)=2^k", name, &args, show_dd(r), format!("exactly 2^{}", x[0]), "wrong_value") };
            }
            if cmp_i(&v, -1080) != Ordering::Greater {
                return if r[0] == 0.0 && r[1] == 0.0 { Verdict::Pass } else { Verdict::fail("exp2(x<=-1080)=0", name, &args, show_dd(r), "exactly 0".into(), "wrong_value") };
            }
            if cmp_i(&v, 1024) != Ordering::Less {
                return if !r[0].is_finite() { Verdict::Pass } else { Verdict::fail("exp2(x>=1024) non-finite", name, &args, show_dd(r), "a non-finite high word".into(), "finite_for_overflow") };
            }
            if cmp_i(&v, -900) == Ordering::Less || cmp_i(&v, 1000) == Ordering::Greater {
                return Verdict::Skip;
            }
            judge_tol("exp2: 2^-93 rel", name, &args, r, |p| {
                let e = rf::exp2_pt(&v, p);
                let tol = e.abs().mul_pow2(-93);
                Some((e, tol))
            }, l)
        }
        _ => {
            if v.is_zero() {
                return if r[0] == 0.0 && r[1] == 0.0 { Verdict::Pass } else { Verdict::fail("exp_m1(0)=0", name, &args, show_dd(r), "0".into(), "wrong_value") };
            }
            if x[0].abs() < 2f64.powi(-1000) || cmp_i(&v, 700) == Ordering::Greater {
                return Verdict::Skip;
            }
            let tight = v.abs().le(&Bf::pow2(-8)) || v.lt(&Bf::from_f64(-0.70)) || !le_f(&v, 0.41);
            let k = if tight { -100 } else { -45 };
            judge_tol(if tight { "exp_m1: 2^-100 rel" } else { "exp_m1: 2^-45 rel (middle range)" }, name, &args, r, |p| {
                let e = if cmp_i(&v, -2000) == Ordering::Less {
                    // e^x < 2^-2800: expm1 in [-1, -1 + 2^-2800]
                    Iv::new(Bf::from_i64(-1), Bf::from_i64(-1).add_exact(&Bf::pow2(-2800)))
                } else {
                    rf::expm1_pt(&v, p)
                };
                let tol = e.abs().mul_pow2(k);
                Some((e, tol))
            }, l)
        }
    }
}

/// region tag used for the known-finding vocabulary: high word an odd multiple of 1/4
fn region_quarter(x: [f64; 2]) -> &'static str {
    let q = x[0] * 4.0;
    if q.fract() == 0.0 && (q as i64) % 2 != 0 {
        "hi_odd_multiple_of_quarter"
    } else {
        "other"
    }
}

pub fn judge_powf(x: [f64; 2], y: [f64; 2], mut l: Option<&mut Local>) -> Verdict {
    let args = [x[0].to_bits(), x[1].to_bits(), y[0].to_bits(), y[1].to_bits()];
    if !dd_valid_fast(x[0], x[1]) || !dd_valid_fast(y[0], y[1]) {
        return Verdict::Skip;
    }
    let r = match api(|| st::mk(x).powf(st::mk(y))) {
        Ok(r) => [r.hi(), r.lo()],
        Err(m) => return Verdict::fail("no_panic", "powf", &args, format!("panic: {}", m), "a value for valid arguments".into(), "panic"),
    };
    // every other spelling of the same power (num_traits::Pow with a TwoFloat or an f64 exponent, by value and by
    // reference; Float::powf): whenever one returns different words from the inherent method it is judged by the same
    // value clauses (that the spellings are bit-identical is C10's claim, not this property's)
    let mut cands: Vec<(&'static str, [f64; 2])> = vec![("powf", r)];
    {
        use num_traits::Pow;
        let (t, ty, f) = (st::mk(x), st::mk(y), y[0]);
        let sp = api(|| {
            let mut v: Vec<(&'static str, st::TF)> = vec![
                ("Pow::pow(x, y)", Pow::pow(t, ty)),
                ("Pow::pow(&x, y)", Pow::pow(&t, ty)),
                ("Pow::pow(x, &y)", Pow::pow(t, &ty)),
                ("Pow::pow(&x, &y)", Pow::pow(&t, &ty)),
                ("Float::powf", <st::TF as num_traits::Float>::powf(t, ty)),
            ];
            if y[1] == 0.0 {
                v.push(("Pow::pow(x, y: f64)", Pow::pow(t, f)));
                v.push(("Pow::pow(&x, y: f64)", Pow::pow(&t, f)));
                v.push(("Pow::pow(x, &y: &f64)", Pow::pow(t, &f)));
                v.push(("Pow::pow(&x, &y: &f64)", Pow::pow(&t, &f)));
            }
            v
        });
        match sp {
            Err(m) => return Verdict::fail("no_panic", "powf", &args, format!("panic in a Pow / Float::powf spelling: {}", m), "a value for valid arguments".into(), "panic"),
            Ok(v) => {
                for (nm, w) in v {
                    if crate::api::canon(w.hi().to_bits()) != crate::api::canon(r[0].to_bits()) || crate::api::canon(w.lo().to_bits()) != crate::api::canon(r[1].to_bits()) {
                        cands.push((nm, [w.hi(), w.lo()]));
                    }
                }
            }
        }
    }
    for (nm, r) in cands {
        let v = powf_value(nm, x, y, r, &args, l.as_deref_mut());
        if v.is_fail() {
            return v;
        }
    }
    Verdict::Pass
}

/// the value clauses of powf for one observed result `r` (from `powf` or from another spelling)
fn powf_value(name: &'static str, x: [f64; 2], y: [f64; 2], r: [f64; 2], args: &[u64], l: Option<&mut Local>) -> Verdict {
    let (vx, vy) = (bfx(x), bfx(y));
    if vx.is_zero() && vy.is_zero() {
        return if is_invalid(r) { Verdict::Pass } else { Verdict::fail("0^0 invalid", name, args, show_dd(r), "an invalid value".into(), "valid_for_domain_error") };
    }
    if vy.is_zero() {
        return if r[0] == 1.0 && r[1] == 0.0 { Verdict::Pass } else { Verdict::fail("x^0=1", name, args, show_dd(r), "1".into(), "wrong_value") };
    }
    if vx.is_zero() {
        if vy.sign() > 0 {
            return if r[0] == 0.0 && r[1] == 0.0 { Verdict::Pass } else { Verdict::fail("0^y=0 (y>0)", name, args, show_dd(r), "0".into(), "wrong_value") };
        }
        return Verdict::Skip;
    }
    let in_acc = x[0].abs() >= 2f64.powi(-30) && x[0].abs() <= 2f64.powi(30) && vy.abs().le(&Bf::from_i64(10));
    let mut want_neg = false;
    if vx.sign() < 0 {
        // integer y: parity decides the sign; non-integer y: invalid
        let dy = vy.to_dy();
        if !dy.is_integer() {
            return if is_invalid(r) { Verdict::Pass } else { Verdict::fail("negative^non-integer invalid", name, args, show_dd(r), "an invalid value".into(), "valid_for_domain_error") };
        }
        // parity of the exact integer
        let half = dy.mul_pow2(-1);
        want_neg = !half.is_integer();
        if r[0].is_nan() {
            // outside the accuracy range the intermediate y*ln|x| may overflow: no claim there
            if !in_acc {
                return Verdict::Skip;
            }
            return Verdict::fail("negative^integer sign", name, args, show_dd(r), format!("{}|x|^y", if want_neg { "-" } else { "+" }), "nan_result");
        }
        if r[0] != 0.0 && (r[0] < 0.0) != want_neg {
            return Verdict::fail("negative^integer sign", name, args, show_dd(r), format!("sign {} (parity of the integer exponent)", if want_neg { "-" } else { "+" }), "wrong_sign");
        }
    }
    if !in_acc {
        return Verdict::Pass;
    }
    let ax = vx.abs();
    judge_tol("powf: 2^-100 (1+|y ln x|) rel", name, args, r, |p| {
        let lnx = rf::ln_pt(&ax, p + 40);
        let yl = lnx.mul(&Iv::from_exact(&vy, p + 40), p + 40);
        let e0 = rf::exp(&yl, p);
        let e = if want_neg { e0.neg() } else { e0 };
        let fac = yl.abs().add(&Iv::from_i64(1), p);
        let tol = e.abs().mul(&fac, p).mul_pow2(-100);
        Some((e, tol))
    }, l)
}

pub fn hist_judge(c: &crate::hist::HCall, l: Option<&mut Local>) -> Verdict {
    use crate::api::Op;
    match c.as_op() {
        Some(Op::exp) => judge1(0, c.a, l),
        Some(Op::exp2) => judge1(1, c.a, l),
        Some(Op::exp_m1) => judge1(2, c.a, l),
        Some(Op::powf) => judge_powf(c.a, c.b, l),
        _ => Verdict::Skip,
    }
}

pub fn replay(call: &str, _clause: &str, args: &[u64]) -> Verdict {
    if call == "hist" {
        return crate::hist::replay(args, &hist_judge);
    }
    let x = [f64::from_bits(args[0]), f64::from_bits(args[1])];
    match call {
        "exp" => judge1(0, x, None),
        "exp2" => judge1(1, x, None),
        "exp_m1" => judge1(2, x, None),
        _ => judge_powf(x, [f64::from_bits(args[2]), f64::from_bits(args[3])], None),
    }
}

pub fn exp_alphabet(quick: bool) -> Vec<[f64; 2]> {
    let mut v: Vec<[f64; 2]> = vec![];
    // table-stratified: x = y/2 + n/128 + delta
    let ys: Vec<i32> = if quick { (-1500..=1430).filter(|y| y % 37 == 0 || (-24..=24).contains(y) || (1380..=1430).contains(y) || (-1500..=-1400).contains(y) && y % 5 == 0).collect() } else { (-1500..=1430).collect() };
    let deltas: Vec<f64> = if quick { vec![0.0, 2f64.powi(-9) * 1.37] } else { vec![0.0, 2f64.powi(-9) * 1.37, -2f64.powi(-8) * 0.77, 2f64.powi(-30), -2f64.powi(-52)] };
    for &y in &ys {
        for n in -32..=32 {
            for &d in &deltas {
                let hi = y as f64 * 0.5 + n as f64 / 128.0 + d;
                if hi == 0.0 {
                    continue;
                }
                let e = crate::grid::exp_of(hi);
                for g in if quick { vec![0, 8] } else { vec![0, 1, 8, 40] } {
                    for s in [1.0, -1.0] {
                        let lo = s * 2f64.powi(e - 54 - g) * 1.6180339887;
                        if dd_valid_fast(hi, lo) {
                            v.push([hi, lo]);
                        }
                    }
                }
                v.push([hi, 0.0]);
            }
        }
    }
    // every multiple of 1/4 from -1100 to 1100 (all reduction breakpoints y/2 +- 1/4, far beyond both
    // overflow thresholds), low words of both signs
    for k in -4400..=4400i64 {
        let hi = k as f64 * 0.25;
        if hi == 0.0 {
            continue;
        }
        v.push([hi, 0.0]);
        let e = crate::grid::exp_of(hi);
        for s in [1.0, -1.0] {
            let lo = s * 2f64.powi(e - 54) * 1.7;
            if dd_valid_fast(hi, lo) {
                v.push([hi, lo]);
            }
        }
    }
    // ties of the table-index rounding: z = (2k+1)/256 around a spread of half-integers
    for m in (-1418..=1418i64).step_by(if quick { 59 } else { 7 }).chain(-6..=6) {
        for k in -32..=31i64 {
            let hi = m as f64 * 0.5 + (2 * k + 1) as f64 / 256.0;
            v.push([hi, 0.0]);
            if !quick || k % 4 == 0 {
                let e = crate::grid::exp_of(hi);
                for s in [1.0, -1.0] {
                    let lo = s * 2f64.powi(e - 56) * 1.1;
                    if dd_valid_fast(hi, lo) {
                        v.push([hi, lo]);
                    }
                }
            }
        }
    }
    // the interior of the exp_m1 switch region and of one table period, linearly
    v.extend(crate::fx::linear_ladder(-256, 256, 256.0, false));
    v.extend(crate::fx::linear_ladder(1, 512, 128.0, true));
    // generic grid, large and tiny arguments
    let mut exps: Vec<i32> = crate::fx::dense_exps(-1074, 11, quick);
    exps.extend([20, 60, 300, 1000, 1023]);
    v.extend(grid(&exps, quick, 61));
    for h in [0.0, -0.0, 709.0, 709.5, 709.78, 709.79, 710.0, 710.5, -708.0, -709.0, -745.0, -745.5, -749.9, -750.0, -751.0, -600.0, 700.0, 1e300, -1e300, f64::MAX, -f64::MAX, 5e-324, -5e-324, -core::f64::consts::LN_2, 0.4054651081081644, -0.70, 0.41, 2f64.powi(-8), -2f64.powi(-8), 1023.0, 1023.5, 1024.0, 1024.5, -1022.0, -1022.5, -1074.0, -1074.5, -1075.0, -1079.5, -1080.0, -1081.0, -900.0, 1000.0] {
        v.extend(with_los(h, &[0, 1, 30], &[0, (1u64 << 52) - 1], &[]));
        v.extend(with_los(crate::util::next_up(h), &[0, 30], &[0], &[]));
        v.extend(with_los(crate::util::next_down(h), &[0, 30], &[0], &[]));
    }
    dedup(&mut v);
    v.retain(|w| dd_valid_fast(w[0], w[1]));
    v
}

pub fn exp2_alphabet(quick: bool) -> Vec<[f64; 2]> {
    let mut v: Vec<[f64; 2]> = vec![];
    for k in -1100..=1030 {
        v.push([k as f64, 0.0]);
        if quick && k % 11 != 0 && !(-3..=3).contains(&k) {
            continue;
        }
        for f in [0.5, -0.5, 0.25, -0.25, 1.0 / 3.0, 2f64.powi(-10), -2f64.powi(-30), 0.9999999] {
            let hi = k as f64 + f;
            v.extend(with_los(hi, &[0, 20], &[(1u64 << 52) - 1, 0x6a09e667f3bcd], &[]));
        }
    }
    dedup(&mut v);
    v.retain(|w| dd_valid_fast(w[0], w[1]));
    v
}

pub fn run(r: &mut Runner) {
    let quick = r.quick();
    let rec = r.recorder();
    let xs = exp_alphabet(quick);
    let n = xs.len();
    r.notes.push(format!("exp / exp_m1: {} arguments: table-stratified x = y/2 + n/128 + delta (y half-integers from -750 to 715, every n in -32..32 -> every entry of the exp(n/128)-1, exp(1/2)^n, exp(16)^n tables, low words of both signs incl. the quarter ties), generic grid over all exponents, range-switch and overflow/underflow thresholds with neighbours", n));
    r.add_sample(json!({"call": "exp", "x": show_dd(xs[n / 2])}));
    r.add_sample(json!({"call": "exp", "x": show_dd(xs[n / 7])}));
    r.par("exp, exp_m1", n.div_ceil(128), n as u64, |c, l| {
        for i in (c * 128)..((c + 1) * 128).min(n) {
            for call in [0usize, 2] {
                let v = judge1(call, xs[i], Some(l));
                if let Verdict::Pass = v {
                    l.count(["exp judged", "", "exp_m1 judged"][call], 1);
                }
                rec.record(l, (i * 3 + call) as u64, v);
            }
        }
    });
    let x2 = {
        let mut v = exp2_alphabet(quick);
        v.extend(xs.iter().step_by(if quick { 9 } else { 3 }).cloned());
        dedup(&mut v);
        v
    };
    let n2 = x2.len();
    r.notes.push(format!("exp2: {} arguments: every integer k in -1100..1030 (exactness for |k| <= 1022), k + f for f in +-1/2, +-1/4, 1/3, +-2^-j, thresholds -1080, -1074, 1023, 1024; plus a subset of the exp alphabet", n2));
    r.par("exp2", n2.div_ceil(128), n2 as u64, |c, l| {
        for i in (c * 128)..((c + 1) * 128).min(n2) {
            let v = judge1(1, x2[i], Some(l));
            rec.record(l, (1u64 << 40) + i as u64, v);
        }
    });
    // powf
    let xe: Vec<i32> = if quick { vec![-30, -29, -10, -1, 0, 1, 5, 29] } else { (-30..=29).collect() };
    let bx = grid_thin(&xe, if quick { 1 } else { 4 }, 63);
    let mut ys: Vec<[f64; 2]> = vec![[0.0, 0.0], [-0.0, 0.0]];
    for k in -10..=10 {
        ys.push([k as f64, 0.0]);
        ys.push([k as f64 + 0.5, 0.0]);
        ys.push([k as f64, 2f64.powi(-60)]);
    }
    ys.extend(grid_thin(&[-20, -3, -1, 0, 1, 2, 3], 1, 65).into_iter().filter(|w| w[0].abs() <= 10.0));
    // integer exponents with the parity in either word, large integers (sign rule only)
    for k in [53, 54, 60, 63, 64, 100, 200, 1000] {
        ys.push([2f64.powi(k), 0.0]);
        ys.push([2f64.powi(k), 1.0]);
        ys.push([2f64.powi(k), -1.0]);
        ys.push([2f64.powi(k), 2.0]);
        ys.push([-2f64.powi(k), 3.0]);
        ys.push([2f64.powi(k), 0.5]);
    }
    ys.push([f64::MAX, 0.0]);
    ys.push([3.0, 0.0]);
    ys.push([2f64.powi(53) - 1.0, 0.0]);
    ys.retain(|w| dd_valid_fast(w[0], w[1]));
    dedup(&mut ys);
    let mut bases = bx.clone();
    for z in [[0.0, 0.0], [-0.0, 0.0], [-1.0, 0.0], [-1.0, -2f64.powi(-70)], [-1.0, 2f64.powi(-70)], [-2.0, 0.0], [-0.5, 0.0], [1.0, 0.0]] {
        bases.push(z);
    }
    dedup(&mut bases);
    let (nb, ny) = (bases.len(), ys.len());
    r.notes.push(format!("powf: {} bases (2^-30..2^30 both signs, zeros, -1, -(1+-2^-70)) x {} exponents (integers and half-integers in [-10,10], generic, zero, huge integers with the parity in either word for the sign rule)", nb, ny));
    r.add_sample(json!({"call": "powf", "x": show_dd(bases[nb / 2]), "y": show_dd(ys[ny / 2])}));
    r.par("powf", nb, (nb * ny) as u64, |i, l| {
        for (j, y) in ys.iter().enumerate() {
            let v = judge_powf(bases[i], *y, Some(l));
            rec.record(l, (1u64 << 41) + (i * ny + j) as u64, v);
        }
    });
    {
        let org = crate::organic::states(if quick { 1 } else { 2 });
        let no = org.len();
        r.notes.push(format!("organic operands: {} chain states (depth {} from the C01 seeds)", no, if quick { 1 } else { 2 }));
        r.par("organic operands (chain results): exp, exp2, exp_m1", no.div_ceil(128), no as u64, |c, l| {
            for i in (c * 128)..((c + 1) * 128).min(no) {
                for call in 0..3 {
                    let v = judge1(call, org[i], Some(l));
                    rec.record(l, (1u64 << 60) + (i * 3 + call) as u64, v);
                }
            }
        });
    }
    {
        let org: Vec<[f64; 2]> = crate::organic::states(1).into_iter().step_by(if quick { 11 } else { 4 }).collect();
        let no = org.len();
        r.notes.push(format!("organic pairs for powf: all ordered pairs of {} chain states", no));
        r.par("organic pairs (chain results): powf", no, (no * no) as u64, |i, l| {
            for j in 0..no {
                let v = judge_powf(org[i], org[j], Some(l));
                rec.record(l, (1u64 << 59) + (i * no + j) as u64, v);
            }
        });
    }
    {
        let gs = crate::fx::generic_stream(if quick { 20000 } else { 2000000 }, 114, -40, 9);
        let ngs = gs.len();
        r.notes.push(format!("generic stream for exp/exp2/exp_m1: {} operands of a fixed Weyl sequence (full-size mantissas in both words, exponents -40..9)", ngs));
        r.par("generic stream: exp/exp2/exp_m1", ngs.div_ceil(256), ngs as u64, |c, l| {
            for i in (c * 256)..((c + 1) * 256).min(ngs) {
                for call in 0..3 {
                    let v = judge1(call, gs[i], Some(l));
                    rec.record(l, (1u64 << 58) + (i * 3 + call) as u64, v);
                }
            }
        });
    }
    {
        // double-double neighbourhoods (0..16 ulps and a geometric tail; thorough: 0..80 and tail) of nice values and of
        // their images under every elementary function: pre-images of nice results, where a result may be snapped
        let mut nb = crate::fx::nice_neighbourhoods(quick);
        // every exponent of the stated range with a thin set of fractions and low words, both signs (a rescaling step,
        // an exponent-indexed table or a branch on the exponent field may treat one binade differently)
        if quick {
            let all: Vec<i32> = (-1000..=10).collect();
            for w in crate::fx::grid_thin(&all, 1, 414) {
                nb.push(w);
                nb.push([-w[0], -w[1]]);
            }
        }
        // both sides of the end points of the stated ranges and of the documented internal thresholds
        nb.extend(crate::fx::edge_points(&[600.0, 700.0, 709.0, 710.0, 750.0, 745.0, 900.0, 1000.0, 1024.0, 1023.0, 1022.0, 1074.0, 1080.0, 0.70, 0.41, 2f64.powi(-8), 2f64.powi(-1000)], quick));
        let nn = nb.len();
        r.notes.push(format!("neighbourhoods of nice pre-images: {} operands ({} base points = integers, simple fractions, multiples of pi, e, ln 2, ln 10, sqrt 2, sqrt 3 and their images under every elementary function; offsets in double-double ulps on both sides)", nn, crate::fx::nice_bases().len()));
        r.par("neighbourhoods of nice pre-images", nn.div_ceil(64), nn as u64, |c, l| {
            for i in (c * 64)..((c + 1) * 64).min(nn) {
                for call in 0..3 {
                    let v = judge1(call, nb[i], Some(l));
                    rec.record(l, (1u64 << 56) + (i * 3 + call) as u64, v);
                }
            }
        });
    }
    {
        // relational pairs: (x, x), (x, -x), (x, 2x), (x, x/2), (x, neighbours of x), (x, hi(x)), (x, +-1) in both orders
        let xs: Vec<[f64; 2]> = { let mut g = crate::fx::grid(&[-30, -10, -1, 0, 1, 2, 3, 10, 29], quick, 141); g.retain(|w| w[0] > 0.0); let n = g.len(); for i in 0..n { let w = g[i]; g.push([-w[0], -w[1]]); } g };
        let ps = crate::fx::relational_pairs(&xs);
        let np = ps.len();
        r.notes.push(format!("relational pairs for powf: {} pairs from {} operands (x with x, -x, 2x, x/2, its double-double neighbours, its high word, +-1; both argument orders)", np, xs.len()));
        r.par("relational pairs: powf", np.div_ceil(64), 2 * np as u64, |c, l| {
            for i in (c * 64)..((c + 1) * 64).min(np) {
                let (a, b) = ps[i];
                let v = judge_powf(a, b, Some(l));
                rec.record(l, (9u64 << 55) + 2 * i as u64, v);
                let v = judge_powf(b, a, Some(l));
                rec.record(l, (9u64 << 55) + 2 * i as u64 + 1, v);
            }
        });
    }
    {
        use crate::api::Op;
        use crate::hist::HCall;
        let mut groups = crate::hist::unary_groups(&[Op::exp, Op::exp_m1], &[[1.25, 1e-17], [-3.75, 2e-16], [0.01, 0.0], [100.5, -1e-15]], [2.0, 0.0]);
        groups.extend(crate::hist::unary_groups(&[Op::exp2], &[[10.5, 1e-16], [-3.25, 0.0]], [2.0, 0.0]));
        crate::hist::explore(r, "histories: exp/exp2/exp_m1", &groups, 3, &hist_judge, 14u64 << 55);
        // cross-family histories: the same judged calls, preceded by every other public function on the same operands
        crate::hist::explore_mixed(r, "cross-family histories: any public call, then exp/exp2/exp_m1", &groups, 2, &hist_judge, (14u64 << 55) + (1u64 << 53));
        // powers: two bases, two exponents, sequences up to length 4 (an LRU of two entries needs A, B, A, A)
        let mut pg: Vec<Vec<HCall>> = vec![];
        for (a, b) in [([3.0, 0.0], [7.0, 0.0]), ([1.5, 1e-17], [1.5, -1e-17]), ([2.0, 0.0], [-2.0, 0.0])] {
            pg.push(vec![HCall::op(Op::powf, a, [2.5, 0.0]), HCall::op(Op::powf, b, [2.5, 0.0]), HCall::op(Op::powf, a, [3.0, 0.0]), HCall::op(Op::powf, b, [-3.0, 1e-16])]);
        }
        crate::hist::explore(r, "histories: powf (two bases, length <= 4)", &pg, 4, &hist_judge, 15u64 << 55);
    }
}
