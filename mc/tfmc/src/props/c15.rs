//! C15 — logarithms: accuracy floors, exact points and domain errors.
use crate::api::{canon, st};
use crate::fx::{bfx, grid, grid_thin, is_invalid, judge_tol, words};
use crate::grid::{dedup, with_los};
use crate::run::{api, Local, Runner, Verdict};
use crate::util::show_dd;
use serde_json::json;
use tfref::bf::{Bf, Iv};
use tfref::big::dd_valid_fast;
use tfref::oracle::plus_pow2;
use tfref::rf;

fn in_range(h: f64) -> bool {
    h.is_finite() && h >= 2f64.powi(-1000) && h <= 2f64.powi(960)
}

/// call: 0 ln, 1 log2, 2 log10, 3 ln_1p
pub fn judge1(call: usize, x: [f64; 2], l: Option<&mut Local>) -> Verdict {
    let name = ["ln", "log2", "log10", "ln_1p"][call];
    let args = words(x);
    if !dd_valid_fast(x[0], x[1]) {
        return Verdict::Skip;
    }
    let t = st::mk(x);
    let v = bfx(x);
    let res = api(|| match call {
        0 => t.ln(),
        1 => t.log2(),
        2 => t.log10(),
        _ => t.ln_1p(),
    });
    let claimed_no_panic = if call == 3 { x[0] <= 2f64.powi(960) } else { in_range(x[0]) || v.sign() <= 0 };
    let r = match res {
        Ok(r) => [r.hi(), r.lo()],
        Err(m) => {
            return if claimed_no_panic { Verdict::fail("no_panic", name, &args, format!("panic: {}", m), "a value".into(), "panic") } else { Verdict::Skip };
        }
    };
    if call < 3 {
        if v.sign() <= 0 {
            return if is_invalid(r) { Verdict::Pass } else { Verdict::fail("log(x<=0) invalid", name, &args, show_dd(r), "an invalid value".into(), "valid_for_domain_error") };
        }
        if !in_range(x[0]) {
            return Verdict::Skip;
        }
        if x[0] == 1.0 && x[1] == 0.0 {
            return if r[0] == 0.0 && r[1] == 0.0 { Verdict::Pass } else { Verdict::fail("log(1)=0", name, &args, show_dd(r), "exactly 0".into(), "wrong_value") };
        }
        if call == 1 && x[1] == 0.0 && (x[0].to_bits() & ((1u64 << 52) - 1)) == 0 {
            let k = crate::grid::exp_of(x[0]);
            if (-1000..=960).contains(&k) {
                return if r[0] == k as f64 && r[1] == 0.0 { Verdict::Pass } else { Verdict::fail("log2(2^k)=k", name, &args, show_dd(r), format!("exactly {}", k), "wrong_value") };
            }
        }
        // log10(x) bit-identical to x.ln() / LN_10
        if call == 2 {
            if let Ok(q) = api(|| t.ln() / twofloat::consts::LN_10) {
                if canon(q.hi().to_bits()) != canon(r[0].to_bits()) || canon(q.lo().to_bits()) != canon(r[1].to_bits()) {
                    return Verdict::fail("log10 == ln/LN_10", name, &args, show_dd(r), show_dd([q.hi(), q.lo()]), "identity_broken");
                }
            }
        }
        return match call {
            0 => judge_tol("ln: 2^-101 (1+|ln v|)", name, &args, r, |p| {
                let e = rf::ln_pt(&v, p);
                let tol = plus_pow2(&e.abs(), 0, p).mul_pow2(-101);
                Some((e, tol))
            }, l),
            1 => judge_tol("log2: 2^-101 |log2 v| + 2^-92", name, &args, r, |p| {
                let e = rf::log2_pt(&v, p);
                let tol = plus_pow2(&e.abs().mul_pow2(-101), -92, p);
                Some((e, tol))
            }, l),
            _ => judge_tol("log10: 2^-100 (1+|log10 v|)", name, &args, r, |p| {
                let e = rf::log10_pt(&v, p);
                let tol = plus_pow2(&e.abs(), 0, p).mul_pow2(-100);
                Some((e, tol))
            }, l),
        };
    }
    // ln_1p
    let m1 = Bf::from_i64(-1);
    if v.le(&m1) {
        return if is_invalid(r) { Verdict::Pass } else { Verdict::fail("ln_1p(x<=-1) invalid", name, &args, show_dd(r), "an invalid value".into(), "valid_for_domain_error") };
    }
    if v.is_zero() {
        return if r[0] == 0.0 && r[1] == 0.0 { Verdict::Pass } else { Verdict::fail("ln_1p(0)=0", name, &args, show_dd(r), "exactly 0".into(), "wrong_value") };
    }
    if x[0].abs() < 2f64.powi(-1000) || x[0] > 2f64.powi(960) {
        return Verdict::Skip;
    }
    let tight = v.abs().le(&Bf::pow2(-8)) || !v.lt(&Bf::from_f64(0.75));
    let k = if tight { -100 } else { -45 };
    let vd = judge_tol(if tight { "ln_1p: 2^-100 rel" } else { "ln_1p: 2^-45 rel (middle range)" }, name, &args, r, |p| {
        let e = rf::log1p_pt(&v, p);
        let tol = e.abs().mul_pow2(k);
        Some((e, tol))
    }, l);
    if vd.is_fail() {
        // region vocabulary for known findings: how close is x to -1 ?
        let d = v.add_exact(&Bf::from_i64(1));
        let tag = if d.msb() < -1021 { "one_plus_x_below_2^-1021" } else if d.msb() < -40 { "one_plus_x_below_2^-40" } else { "other" };
        return vd.with_region(&[tag]);
    }
    vd
}

/// log(x, b) bit-identical to x.ln() / b.ln()
pub fn judge_log(x: [f64; 2], b: [f64; 2]) -> Verdict {
    let args = [x[0].to_bits(), x[1].to_bits(), b[0].to_bits(), b[1].to_bits()];
    if !dd_valid_fast(x[0], x[1]) || !dd_valid_fast(b[0], b[1]) || !in_range(x[0]) || !in_range(b[0]) {
        return Verdict::Skip;
    }
    let (tx, tb) = (st::mk(x), st::mk(b));
    match (api(|| tx.log(tb)), api(|| tx.ln() / tb.ln())) {
        (Ok(a), Ok(q)) => {
            if canon(a.hi().to_bits()) != canon(q.hi().to_bits()) || canon(a.lo().to_bits()) != canon(q.lo().to_bits()) {
                return Verdict::fail("log(x,b) == ln x / ln b", "log", &args, show_dd([a.hi(), a.lo()]), show_dd([q.hi(), q.lo()]), "identity_broken");
            }
            Verdict::Pass
        }
        (Err(m), _) | (_, Err(m)) => Verdict::fail("no_panic", "log", &args, format!("panic: {}", m), "a value".into(), "panic"),
    }
}

pub fn hist_judge(c: &crate::hist::HCall, l: Option<&mut Local>) -> Verdict {
    use crate::api::Op;
    match c.as_op() {
        Some(Op::ln) => judge1(0, c.a, l),
        Some(Op::log2) => judge1(1, c.a, l),
        Some(Op::log10) => judge1(2, c.a, l),
        Some(Op::ln_1p) => judge1(3, c.a, l),
        Some(Op::log) => judge_log(c.a, c.b),
        _ => Verdict::Skip,
    }
}

pub fn replay(call: &str, _clause: &str, args: &[u64]) -> Verdict {
    if call == "hist" {
        return crate::hist::replay(args, &hist_judge);
    }
    let x = [f64::from_bits(args[0]), f64::from_bits(args[1])];
    match call {
        "ln" => judge1(0, x, None),
        "log2" => judge1(1, x, None),
        "log10" => judge1(2, x, None),
        "ln_1p" => judge1(3, x, None),
        _ => judge_log(x, [f64::from_bits(args[2]), f64::from_bits(args[3])]),
    }
}

pub fn alphabet(quick: bool) -> Vec<[f64; 2]> {
    let exps: Vec<i32> = if quick { (-1000..=959).step_by(23).chain([-1000, -999, -3, -2, -1, 0, 1, 2, 3, 958, 959]).collect() } else { (-1000..=959).collect() };
    let mut v = grid(&exps, quick, 71);
    // densely around 1: 1 +- 2^-j, (1, +-2^-j), and generic values close to 1
    for j in 1..=52 {
        for s in [1.0, -1.0] {
            let h = 1.0 + s * 2f64.powi(-j);
            v.extend(with_los(h, &[0, 1, 20], &[0, 0x9e3779b97f4a7], &[]));
        }
    }
    for j in (53..=1000).step_by(if quick { 13 } else { 1 }) {
        for s in [1.0, -1.0] {
            let lo = s * 2f64.powi(-j);
            if dd_valid_fast(1.0, lo) {
                v.push([1.0, lo]);
                v.push([1.0, lo * 1.2345678]);
            }
        }
    }
    // every power of two (log2 exactness) and neighbours
    for k in -1000..=960 {
        let h = 2f64.powi(k);
        v.push([h, 0.0]);
        if !quick || k % 16 == 0 {
            v.push([crate::util::next_up(h), 0.0]);
            v.push([crate::util::next_down(h), 0.0]);
            if dd_valid_fast(h, h * 2f64.powi(-60)) {
                v.push([h, h * 2f64.powi(-60)]);
            }
        }
    }
    for h in [10.0, 100.0, 1e10, 1e22, 0.1, 1e-10, core::f64::consts::E, 3.0] {
        v.extend(with_los(h, &[0, 1, 30], &[0, (1u64 << 52) - 1], &[]));
    }
    // pre-images of the strata of the inner function (ln is a Newton iteration on exp): x = exp(k/4 + d)
    for k in (-2400..=2400i64).step_by(if quick { 3 } else { 1 }) {
        let q = k as f64 * 0.25;
        for d in [0.0, 1.0, -1.0, 1.0 / 16.0, -1.0 / 16.0, 2.0, -2.0, 3.0, -3.0, 3.9, -3.9, 32.0, -32.0] {
            // offsets from 1/128 of an ulp of q up to just below half an ulp (a second-order term in the low word of the
            // iterate grows with the square of the offset and with |q|) and one above; offsets below half an ulp of q (the high word of the iterate stays exactly q) and one above
            let t = tfref::bf::Bf::from_f64(q).add_exact(&tfref::bf::Bf::from_f64(d * 2f64.powi(-55) * q.abs().max(0.25)));
            if let Some(w) = crate::fx::dd_of(&rf::exp_pt(&t, 256)) {
                v.push(w);
            }
        }
    }
    // x = 2^(m + 1/2 + d): ties of the integer rounding inside exp2 (log2 iterates on exp2)
    for m in (-1000..=959i64).step_by(if quick { 7 } else { 1 }) {
        for d in [0.0, 1.0, -1.0] {
            let t = tfref::bf::Bf::from_f64(m as f64 + 0.5).add_exact(&tfref::bf::Bf::from_f64(d * 2f64.powi(-48) * (1.0 + (m as f64).abs())));
            if let Some(w) = crate::fx::dd_of(&rf::exp2_pt(&t, 256)) {
                v.push(w);
            }
        }
    }
    // linear ladder over (0, 8]
    v.extend(crate::fx::linear_ladder(1, 512, 64.0, false));
    // domain errors
    for z in [[0.0, 0.0], [-0.0, 0.0], [-1.0, 0.0], [-2f64.powi(-1000), 0.0], [-1e300, 0.0], [-5e-324, 0.0]] {
        v.push(z);
    }
    dedup(&mut v);
    v.retain(|w| dd_valid_fast(w[0], w[1]));
    v
}

pub fn alphabet_1p(quick: bool) -> Vec<[f64; 2]> {
    let mut exps: Vec<i32> = crate::fx::dense_exps(-1000, 12, quick);
    exps.extend(if quick { (13..=959).step_by(43).collect::<Vec<i32>>() } else { (13..=959).step_by(2).collect() });
    exps.push(959);
    let mut v = grid(&exps, quick, 73);
    for h in [2f64.powi(-8), -2f64.powi(-8), 0.75, -0.75, -0.5, 0.5, -1.0, -1.5, -0.9999999999999999, 1.0, 0.0, -0.0, 2f64.powi(960)] {
        v.extend(with_los(h, &[0, 1, 30], &[0, (1u64 << 52) - 1], &[]));
        v.extend(with_los(crate::util::next_up(h), &[0], &[0], &[]));
        v.extend(with_los(crate::util::next_down(h), &[0], &[0], &[]));
    }
    for j in 1..=60 {
        // x -> -1 from above
        let h = -1.0 + 2f64.powi(-j.min(53));
        v.extend(with_los(h, &[0, 10], &[0, (1u64 << 52) - 1], &[]));
    }
    // x = (-1, t): 1 + x = t for every binade of t down to the smallest subnormal
    for j in 54..=1074 {
        let t = if j <= 1022 { 2f64.powi(-j) } else { tfref::big::pow2_f64(-j) };
        v.push([-1.0, t]);
        if j < 1022 {
            v.push([-1.0, t * 1.7320508075688772]);
        }
    }
    // pre-images of the exp_m1 strata: x = expm1(k/4 + d), and a linear ladder over (-1, 4]
    for k in (-160..=2400i64).step_by(if quick { 3 } else { 1 }) {
        let q = k as f64 * 0.25;
        for d in [0.0, 1.0, -1.0, 1.0 / 16.0, -1.0 / 16.0] {
            let t = tfref::bf::Bf::from_f64(q).add_exact(&tfref::bf::Bf::from_f64(d * 2f64.powi(-55) * q.abs().max(0.25)));
            if t.is_zero() {
                continue;
            }
            if let Some(w) = crate::fx::dd_of(&rf::expm1_pt(&t, 256)) {
                v.push(w);
            }
        }
    }
    v.extend(crate::fx::linear_ladder(-127, 512, 128.0, false));
    dedup(&mut v);
    v.retain(|w| dd_valid_fast(w[0], w[1]) && w[0] <= 2f64.powi(960));
    v
}

pub fn run(r: &mut Runner) {
    let quick = r.quick();
    let rec = r.recorder();
    let xs = alphabet(quick);
    let n = xs.len();
    r.notes.push(format!("ln/log2/log10: {} arguments ({} exponents of [2^-1000, 2^960] x structured+generic fractions x low words; 1 +- 2^-j for all j <= 52 and (1, +-2^-j) down to j = 1000; every power of two with neighbours; x <= 0)", n, if quick { "every 23rd" } else { "all" }));
    r.add_sample(json!({"call": "ln", "x": show_dd(xs[n / 2])}));
    r.par("ln, log2, log10", n.div_ceil(128), n as u64, |c, l| {
        for i in (c * 128)..((c + 1) * 128).min(n) {
            for call in 0..3 {
                let v = judge1(call, xs[i], Some(l));
                rec.record(l, (i * 3 + call) as u64, v);
            }
        }
    });
    let x1 = alphabet_1p(quick);
    let n1 = x1.len();
    r.notes.push(format!("ln_1p: {} arguments (both signs, 2^-1000..2^960, both sides of +-2^-8 and 0.75, x -> -1+, x <= -1)", n1));
    r.add_sample(json!({"call": "ln_1p", "x": show_dd(x1[n1 / 2])}));
    r.par("ln_1p", n1.div_ceil(128), n1 as u64, |c, l| {
        for i in (c * 128)..((c + 1) * 128).min(n1) {
            let v = judge1(3, x1[i], Some(l));
            rec.record(l, (1u64 << 40) + i as u64, v);
        }
    });
    let g = grid_thin(if quick { &[-1000, -3, -1, 0, 1, 4, 959] } else { &[-1000, -500, -10, -3, -1, 0, 1, 2, 4, 10, 100, 959] }, if quick { 1 } else { 3 }, 75);
    let ng = g.len();
    r.par("log(x, b) == ln x / ln b", ng, (ng * ng) as u64, |i, l| {
        for j in 0..ng {
            rec.record(l, (1u64 << 41) + (i * ng + j) as u64, judge_log(g[i], g[j]));
        }
    });
    {
        let org = crate::organic::states(if quick { 1 } else { 2 });
        let no = org.len();
        r.notes.push(format!("organic operands: {} chain states (depth {} from the C01 seeds)", no, if quick { 1 } else { 2 }));
        r.par("organic operands (chain results): ln, log2, log10, ln_1p", no.div_ceil(128), no as u64, |c, l| {
            for i in (c * 128)..((c + 1) * 128).min(no) {
                for call in 0..4 {
                    let v = judge1(call, org[i], Some(l));
                    rec.record(l, (1u64 << 60) + (i * 4 + call) as u64, v);
                }
            }
        });
    }
    {
        let org: Vec<[f64; 2]> = crate::organic::states(1).into_iter().step_by(if quick { 11 } else { 4 }).collect();
        let no = org.len();
        r.notes.push(format!("organic pairs for log: all ordered pairs of {} chain states", no));
        r.par("organic pairs (chain results): log", no, (no * no) as u64, |i, l| {
            for j in 0..no {
                let v = judge_log(org[i], org[j]);
                rec.record(l, (1u64 << 59) + (i * no + j) as u64, v);
            }
        });
    }
    {
        let gs = crate::fx::generic_stream(if quick { 20000 } else { 2000000 }, 115, -1000, 959);
        let ngs = gs.len();
        r.notes.push(format!("generic stream for ln/log2/log10/ln_1p: {} operands of a fixed Weyl sequence (full-size mantissas in both words, exponents -1000..959)", ngs));
        r.par("generic stream: ln/log2/log10/ln_1p", ngs.div_ceil(256), ngs as u64, |c, l| {
            for i in (c * 256)..((c + 1) * 256).min(ngs) {
                let x = [gs[i][0].abs(), if gs[i][0] < 0.0 { -gs[i][1] } else { gs[i][1] }];
                for call in 0..4 {
                    let v = judge1(call, x, Some(l));
                    rec.record(l, (1u64 << 58) + (i * 4 + call) as u64, v);
                }
            }
        });
    }
    {
        let gs = crate::fx::generic_stream(if quick { 20000 } else { 2000000 }, 1150, -30, 3);
        let ngs = gs.len();
        r.notes.push(format!("generic stream for ln/ln_1p near the origin of their series: {} operands of a fixed Weyl sequence (full-size mantissas in both words, exponents -30..3)", ngs));
        r.par("generic stream: ln/ln_1p near the origin of their series", ngs.div_ceil(256), ngs as u64, |c, l| {
            for i in (c * 256)..((c + 1) * 256).min(ngs) {
                for call in [0usize, 3] {
                    let v = judge1(call, gs[i], Some(l));
                    rec.record(l, (1u64 << 57) + (i * 4 + call) as u64, v);
                }
            }
        });
    }
    {
        // double-double neighbourhoods (0..16 ulps and a geometric tail; thorough: 0..80 and tail) of nice values and of
        // their images under every elementary function: pre-images of nice results, where a result may be snapped
        let mut nb = crate::fx::nice_neighbourhoods(quick);
        // every exponent of the stated range with a thin set of fractions and low words, both signs (a rescaling step,
        // an exponent-indexed table or a branch on the exponent field may treat one binade differently)
        if quick {
            let all: Vec<i32> = (-1000..=959).collect();
            for w in crate::fx::grid_thin(&all, 1, 415) {
                nb.push(w);
                nb.push([-w[0], -w[1]]);
            }
        }
        // both sides of the end points of the stated ranges and of the documented internal thresholds
        nb.extend(crate::fx::edge_points(&[2f64.powi(-1000), 2f64.powi(960), 1.0, 0.75, 2f64.powi(-8), 0.5], quick));
        let nn = nb.len();
        r.notes.push(format!("neighbourhoods of nice pre-images: {} operands ({} base points = integers, simple fractions, multiples of pi, e, ln 2, ln 10, sqrt 2, sqrt 3 and their images under every elementary function; offsets in double-double ulps on both sides)", nn, crate::fx::nice_bases().len()));
        r.par("neighbourhoods of nice pre-images", nn.div_ceil(64), nn as u64, |c, l| {
            for i in (c * 64)..((c + 1) * 64).min(nn) {
                for call in 0..4 {
                    let v = judge1(call, nb[i], Some(l));
                    rec.record(l, (1u64 << 56) + (i * 4 + call) as u64, v);
                }
            }
        });
    }
    {
        // relational pairs: (x, x), (x, -x), (x, 2x), (x, x/2), (x, neighbours of x), (x, hi(x)), (x, +-1) in both orders
        let xs: Vec<[f64; 2]> = { let mut g = crate::fx::grid(&[-1000, -500, -10, -1, 0, 1, 2, 10, 500, 959], quick, 151); g.retain(|w| w[0] > 0.0); g.extend([[1.0, 0.0], [0.0, 0.0], [-0.0, 0.0], [-1.0, 0.0], [-2.5, 0.0], [2.0, 0.0], [10.0, 0.0]]); g };
        let ps = crate::fx::relational_pairs(&xs);
        let np = ps.len();
        r.notes.push(format!("relational pairs for log: {} pairs from {} operands (x with x, -x, 2x, x/2, its double-double neighbours, its high word, +-1; both argument orders)", np, xs.len()));
        r.par("relational pairs: log", np.div_ceil(64), 2 * np as u64, |c, l| {
            for i in (c * 64)..((c + 1) * 64).min(np) {
                let (a, b) = ps[i];
                let _ = &l;
                rec.record(l, (9u64 << 55) + 2 * i as u64, judge_log(a, b));
                rec.record(l, (9u64 << 55) + 2 * i as u64 + 1, judge_log(b, a));
            }
        });
    }
    {
        use crate::api::Op;
        let bases: Vec<[f64; 2]> = vec![[1.001, 0.0], [3.0, 1e-17], [1e10, 0.0], [0.37, -1e-18], [81.0, 0.0]];
        let mut groups = crate::hist::unary_groups(&[Op::ln, Op::log10], &bases, [7.5, 0.0]);
        groups.extend(crate::hist::unary_groups(&[Op::log2, Op::ln_1p], &[[0.5, 1e-18], [5.0, 0.0]], [7.5, 0.0]));
        groups.extend(crate::hist::binary_groups(&[Op::log], &[([81.0, 0.0], [3.0, 1e-17]), ([100.0, 1e-15], [10.0, 0.0]), ([7.0, 0.0], [2.0, -1e-17])]));
        crate::hist::explore(r, "histories: ln/log2/log10/ln_1p/log", &groups, 3, &hist_judge, 14u64 << 55);
        // cross-family histories: the same judged calls, preceded by every other public function on the same operands
        crate::hist::explore_mixed(r, "cross-family histories: any public call, then ln/log2/log10/ln_1p/log", &groups, 2, &hist_judge, (14u64 << 55) + (1u64 << 53));
    }
}
