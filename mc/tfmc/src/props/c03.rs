//! C03 — addition / subtraction meet the proven double-word error bounds.
use crate::api::st;
use crate::pairs::{dense_deltas, PairPlan};
use crate::run::{api, Local, Runner, Verdict};
use crate::util::{hexf, show_dd};
use serde_json::json;
use tfref::alpha::{dd_alpha, gen_fracs, run_bounded, run_bounded_at, weyl_fracs, DdSpec};
use tfref::big::Dy;

pub const CALLS: [&str; 14] = ["add", "sub", "add_assign", "sub_assign", "add_f", "sub_f", "add_assign_f", "sub_assign_f", "f_add", "f_sub", "sum_tf", "sum_f64", "add_self", "sub_self"];

fn in_range(hi: f64) -> bool {
    hi == 0.0 || (hi.is_finite() && hi.abs() >= 2f64.powi(-1000) && hi.abs() <= 2f64.powi(1000))
}

/// Judge result words `r` against the exact value `s`; bound = (k * 2^53 + c) * 2^-159 * |s|
fn bound(name: &'static str, clause: &'static str, args: &[u64], r: [f64; 2], s: &Dy, k: u64, c: u64, l: Option<&mut Local>) -> Verdict {
    if !r[0].is_finite() || !r[1].is_finite() {
        return Verdict::fail(clause, name, args, show_dd(r), "finite result within the bound".into(), "nonfinite");
    }
    let e = Dy::from_dd(r[0], r[1]).sub(s);
    let (ok, ratio) = e.within(k * (1u64 << 53) + c, -159, s);
    if let Some(l) = l {
        if ratio > 0.05 {
            l.worst(clause, ratio, || format!("{} {:?} -> {}", name, args.iter().map(|w| format!("{:016x}", w)).collect::<Vec<_>>(), show_dd(r)));
        }
    }
    if !ok {
        let sig = if s.is_zero() { "nonzero_for_zero_sum" } else { "over_bound" };
        return Verdict::fail(clause, name, args, show_dd(r), format!("|r - exact| <= ({}*2^53+{})*2^-159*|exact|; observed/allowed = {:.6}; exact ~ {:e}", k, c, ratio, s.to_f64_rn().0), sig);
    }
    Verdict::Pass
}

/// One transition. call index into CALLS (0..10). `b` is a TwoFloat for 0..4, an f64 (b[0]) otherwise.
pub fn judge(call: usize, a: [f64; 2], b: [f64; 2], mut l: Option<&mut Local>) -> Verdict {
    let name = CALLS[call];
    // 12, 13: `&x + &x`, `&x - &x` with BOTH operands the same object (aliased references); judged as add / sub of (a, a)
    let alias = call >= 12;
    if alias && (a[0].to_bits() != b[0].to_bits() || a[1].to_bits() != b[1].to_bits()) {
        return Verdict::Skip;
    }
    let x = st::mk(a);
    let f = b[0];
    let args4 = [a[0].to_bits(), a[1].to_bits(), b[0].to_bits(), b[1].to_bits()];
    if !in_range(a[0]) || !in_range(b[0]) {
        return Verdict::Skip;
    }
    let res = api(|| match call {
        12 => &x + &x,
        13 => &x - &x,
        0 => x + st::mk(b),
        1 => x - st::mk(b),
        2 => {
            let mut t = x;
            t += st::mk(b);
            t
        }
        3 => {
            let mut t = x;
            t -= st::mk(b);
            t
        }
        4 => x + f,
        5 => x - f,
        6 => {
            let mut t = x;
            t += f;
            t
        }
        7 => {
            let mut t = x;
            t -= f;
            t
        }
        8 => f + x,
        _ => f - x,
    });
    let r = match res {
        Ok(t) => [t.hi(), t.lo()],
        Err(m) => return Verdict::fail("no_panic", name, &args4, format!("panic: {}", m), "a value".into(), "panic"),
    };
    let da = Dy::from_dd(a[0], a[1]);
    match call {
        0 | 2 | 12 => bound(name, "tf+tf: 3u^2+13u^3", &args4, r, &da.add(&Dy::from_dd(b[0], b[1])), 3, 13, l.as_deref_mut()),
        1 | 3 | 13 => bound(name, "tf-tf: 3u^2+13u^3", &args4, r, &da.sub(&Dy::from_dd(b[0], b[1])), 3, 13, l.as_deref_mut()),
        4 | 6 | 8 => bound(name, "tf+f64: 2u^2", &args4, r, &da.add_f64(f), 2, 0, l.as_deref_mut()),
        5 | 7 => bound(name, "tf-f64: 2u^2", &args4, r, &da.sub_f64(f), 2, 0, l.as_deref_mut()),
        _ => bound(name, "f64-tf: 2u^2", &args4, r, &Dy::from_f64(f).sub(&da), 2, 0, l.as_deref_mut()),
    }
}

/// Iterator::sum over a sequence must equal the explicit left fold from zero, bit for bit.
pub fn judge_sum(kind: usize, seq: &[[f64; 2]]) -> Verdict {
    let name = CALLS[10 + kind];
    let mut args = vec![];
    for v in seq {
        args.push(v[0].to_bits());
        args.push(v[1].to_bits());
    }
    let same = |a: st::TF, b: st::TF| crate::api::canon(a.hi().to_bits()) == crate::api::canon(b.hi().to_bits()) && crate::api::canon(a.lo().to_bits()) == crate::api::canon(b.lo().to_bits());
    let res = api(|| {
        if kind == 0 {
            let items: Vec<st::TF> = seq.iter().map(|&w| st::mk(w)).collect();
            let s1: st::TF = items.iter().copied().sum();
            let s2: st::TF = items.iter().sum();
            let mut f = st::TF::from(0.0);
            for &it in &items {
                f = f + it;
            }
            (s1, s2, f)
        } else {
            let items: Vec<f64> = seq.iter().map(|w| w[0]).collect();
            let s1: st::TF = items.iter().copied().sum();
            let s2: st::TF = items.iter().sum();
            let mut f = st::TF::from(0.0);
            for &it in &items {
                f = f + it;
            }
            (s1, s2, f)
        }
    });
    match res {
        Err(m) => Verdict::fail("sum_is_left_fold", name, &args, format!("panic: {}", m), "a value".into(), "panic"),
        Ok((s1, s2, f)) => {
            if !same(s1, f) || !same(s2, f) {
                return Verdict::fail("sum_is_left_fold", name, &args, format!("by value {} / by ref {}", show_dd([s1.hi(), s1.lo()]), show_dd([s2.hi(), s2.lo()])), format!("left fold with + from zero = {}", show_dd([f.hi(), f.lo()])), "sum_differs_from_fold");
            }
            Verdict::Pass
        }
    }
}

/// Long sequences for `Iterator::sum`, bounded by DEVIATIONS instead of by length: every length L in 7..=Lmax, every
/// sequence that is a default term everywhere except at most two positions, each of which holds one of a few special
/// terms (huge of both signs, tiny, pi, -0).  A summation that is not the plain left fold (chunked / unrolled with a
/// remainder loop, pairwise, several accumulators) is right for short inputs by construction and differs from the fold
/// only from some length on, or only for lengths in one residue class of the chunk size.
pub fn long_sums(r: &mut Runner, base_index: u64) {
    let quick = r.quick();
    let rec = r.recorder();
    let p = |k: i32| 2f64.powi(k);
    let dflt: [f64; 2] = [0.1, -5.551115123125783e-18];
    let big = p(107) * (1.0 + p(-52));
    let special: Vec<[f64; 2]> = vec![[big, big * p(-54) * 1.25], [-big, -big * p(-54) * 1.25], [0.1 * p(-110), 0.1 * p(-164) * 1.25], [core::f64::consts::PI, 1.2246467991473532e-16], [-0.0, 0.0]];
    assert!(special.iter().all(|w| tfref::big::dd_valid(w[0], w[1])) && tfref::big::dd_valid(dflt[0], dflt[1]));
    let (l2max, l1max) = if quick { (96usize, 300usize) } else { (200usize, 1000usize) };
    // work units: (L, first deviating position or none)
    let mut units: Vec<(usize, Option<usize>)> = vec![];
    let mut total = 0u64;
    let k = special.len() as u64;
    for len in 7..=l1max {
        units.push((len, None));
        total += 1;
        for i in 0..len {
            units.push((len, Some(i)));
            total += k;
            if len <= l2max {
                total += k * k * (len - 1 - i) as u64;
            }
        }
    }
    r.notes.push(format!("sum==fold, long sequences bounded by deviations: every length 7..={} with at most 2 (lengths up to {}) or 1 positions deviating from the default term 0.1_dd, each deviation one of {} special terms (+-2^107, 2^-113, pi, -0) = {} sequences x 2 item types x by-value/by-reference", l1max, l2max, k, total));
    r.add_sample(json!({"call": "sum_tf", "length": 19, "default": [hexf(dflt[0]), hexf(dflt[1])], "deviations": {"3": hexf(big), "17": hexf(-big)}, "family": "long sequences (deviation-bounded)"}));
    r.par("sum==fold (long sequences, <=2 deviations)", units.len(), 2 * total, |u, l| {
        let (len, first) = units[u];
        let mut seq: Vec<[f64; 2]> = vec![dflt; len];
        let idx = |a: usize, b: usize, c: usize, d: usize| base_index + ((len as u64) << 32) + ((a as u64) << 22) + ((b as u64) << 12) + ((c as u64) << 8) + ((d as u64) << 4);
        match first {
            None => {
                for kind in 0..2 {
                    rec.record(l, idx(1023, 1023, 0, 0) + kind as u64, judge_sum(kind, &seq));
                }
            }
            Some(i) => {
                for (si, s1) in special.iter().enumerate() {
                    seq[i] = *s1;
                    for kind in 0..2 {
                        rec.record(l, idx(i, 1023, si, 0) + kind as u64, judge_sum(kind, &seq));
                    }
                    if len <= l2max {
                        for j in (i + 1)..len {
                            for (sj, s2) in special.iter().enumerate() {
                                seq[j] = *s2;
                                for kind in 0..2 {
                                    rec.record(l, idx(i, j, si, sj) + kind as u64, judge_sum(kind, &seq));
                                }
                            }
                            seq[j] = dflt;
                        }
                    }
                }
            }
        }
    });
}

pub fn hist_judge(c: &crate::hist::HCall, l: Option<&mut Local>) -> Verdict {
    use crate::api::Op;
    let k = match c.as_op() {
        Some(Op::add) => 0,
        Some(Op::sub) => 1,
        Some(Op::add_assign) => 2,
        Some(Op::sub_assign) => 3,
        Some(Op::add_f) => 4,
        Some(Op::sub_f) => 5,
        Some(Op::add_assign_f) => 6,
        Some(Op::sub_assign_f) => 7,
        Some(Op::f_add) => 8,
        Some(Op::f_sub) => 9,
        _ => return Verdict::Skip,
    };
    judge(k, c.a, c.b, l)
}

pub fn replay(call: &str, _clause: &str, args: &[u64]) -> Verdict {
    if call == "hist" {
        return crate::hist::replay(args, &hist_judge);
    }
    let ci = CALLS.iter().position(|c| *c == call).expect("unknown call");
    if ci == 10 || ci == 11 {
        let seq: Vec<[f64; 2]> = args.chunks(2).map(|c| [f64::from_bits(c[0]), f64::from_bits(c[1])]).collect();
        return judge_sum(ci - 10, &seq);
    }
    judge(ci, [f64::from_bits(args[0]), f64::from_bits(args[1])], [f64::from_bits(args[2]), f64::from_bits(args[3])], None)
}

pub fn unit_alphabet(hi_fracs: &[u64], gaps: &[i32], lo_fracs: &[u64], both_signs: bool) -> Vec<[f64; 2]> {
    dd_alpha(&DdSpec { exps: vec![0], hi_fracs: hi_fracs.to_vec(), hi_signs: if both_signs { vec![false, true] } else { vec![false] }, gaps: gaps.to_vec(), lo_fracs: lo_fracs.to_vec(), zero_lo: true, tiny_lo: false })
}

pub fn plan(quick: bool) -> PairPlan {
    // quick: R_2 at 4 boundary positions; thorough: R_2 at 14 positions (about 3e8 / 3e10 pair transitions)
    let pos_q: Vec<u32> = vec![1, 2, 26, 51];
    let pos_t: Vec<u32> = vec![1, 2, 3, 4, 8, 16, 26, 27, 32, 44, 48, 49, 50, 51];
    let mut hf: Vec<u64> = run_bounded_at(52, 2, if quick { &pos_q } else { &pos_t });
    hf.extend(gen_fracs(if quick { 2 } else { 4 }));
    hf.extend(weyl_fracs(if quick { 2 } else { 8 }, 3));
    let gaps: Vec<i32> = if quick { vec![0, 1, 2, 10, 52, 53, 54] } else { vec![0, 1, 2, 3, 10, 30, 52, 53, 54, 106, 200, 900] };
    let mut lf: Vec<u64> = run_bounded(52, 1);
    lf.extend(gen_fracs(1));
    if !quick {
        lf.push(1);
    }
    let ua = unit_alphabet(&hf, &gaps, &lf, !quick);
    let ub = unit_alphabet(&hf, &gaps, &lf, true);
    PairPlan {
        ua: if quick { ua } else { ua.into_iter().step_by(3).collect() },
        ub: if quick { ub } else { ub.into_iter().step_by(2).collect() },
        e0s: if quick { vec![-1000, 0, 890] } else { vec![-1000, -999, -500, -1, 0, 1, 500, 889, 890] },
        deltas: if quick { dense_deltas(56, &[60, 64, 100, 105, 106, 107, 108, 109, 110, 150, 500, 1000, 1990]) } else { dense_deltas(110, &[150, 500, 1000, 1990]) },
        emin: -1000,
        emax: 999,
        extra_a: vec![[0.0, 0.0], [-0.0, 0.0]],
        extra_b: vec![[0.0, 0.0], [-0.0, -0.0]],
    }
}

/// A second, narrower plan at magnitudes where products of the operands' high words underflow
/// (2^-600) or overflow (2^600): only the cancellation / interleaving offsets.
pub fn plan_extreme(quick: bool) -> PairPlan {
    let mut p = plan(quick);
    p.e0s = vec![-600, 600];
    p.deltas = vec![0, 1, -1, 2, -2, 3, -3, 52, -52, 53, -53, 54, -54, 106, -106];
    p
}

pub fn run(r: &mut Runner) {
    let quick = r.quick();
    let p = plan(quick);
    r.notes.push(format!("unit alphabets |Ua|={} |Ub|={}; reference exponents {:?}; {} exponent offsets (thorough: all of -110..110 plus +-150,500,1000,1990; quick: all of -56..56 plus +-60,64,100,105..110,150,500,1000,1990); high words restricted to 0 or [2^-1000, 2^1000]", p.ua.len(), p.ub.len(), p.e0s, p.deltas.len()));
    r.add_sample(json!({"a": show_dd(p.ua[p.ua.len() / 3]), "b": show_dd(p.ub[p.ub.len() / 2]), "note": "unit alphabet members before scaling by 2^e0, 2^(e0+delta)"}));
    let rec = r.recorder();
    // TwoFloat (+,-) TwoFloat, and the compound assignments; the assignments are only re-judged when
    // their words differ from the operator's (same computation => same verdict).
    let next = p.run(r, "tf(+-)tf", 0, |l, idx, a, b| {
        let mut first = [[0f64; 2]; 2];
        for call in 0..4usize {
            // cheap path: compute words, compare with operator form
            if call >= 2 {
                let x = st::mk(a);
                let y = st::mk(b);
                let t = api(|| {
                    let mut t = x;
                    if call == 2 {
                        t += y
                    } else {
                        t -= y
                    }
                    [t.hi(), t.lo()]
                });
                if let Ok(t) = t {
                    let o = first[call - 2];
                    if t[0].to_bits() == o[0].to_bits() && t[1].to_bits() == o[1].to_bits() {
                        l.transitions += 1;
                        continue;
                    }
                }
            } else {
                let x = st::mk(a);
                let y = st::mk(b);
                if let Ok(t) = api(|| if call == 0 { x + y } else { x - y }) {
                    first[call] = [t.hi(), t.lo()];
                }
            }
            let v = judge(call, a, b, Some(l));
            rec.record(l, idx * 4 + call as u64, v);
        }
    });
    let px = plan_extreme(quick);
    let next = px.run(r, "tf(+-)tf @2^+-600", next * 4, |l, idx, a, b| {
        for call in 0..4usize {
            let v = judge(call, a, b, Some(l));
            rec.record(l, idx * 4 + call as u64, v);
        }
    });
    // mixed forms: b's high word as the f64 operand (only once per distinct high word)
    let _ = p.run(r, "tf(+-)f64", next * 4, |l, idx, a, b| {
        if b[1].to_bits() != 0 {
            return;
        }
        for call in 4..10usize {
            let v = judge(call, a, b, Some(l));
            rec.record(l, idx * 6 + (call - 4) as u64, v);
        }
    });
    // organic operands: results of one-step chains as both operands
    {
        let org = crate::organic::states(1);
        let a: Vec<[f64; 2]> = org.clone();
        let b: Vec<[f64; 2]> = if quick { org.iter().step_by(5).cloned().collect() } else { org.clone() };
        let (na, nb) = (a.len(), b.len());
        r.notes.push(format!("organic operands: {} chain states (depth 1 from the C01 seeds) x {} of them", na, nb));
        r.par("organic pairs (chain results as operands)", na, (na * nb) as u64, |i, l| {
            for (j, y) in b.iter().enumerate() {
                for call in 0..10usize {
                    if call >= 4 && y[1].to_bits() != 0 && j % 3 != 0 {
                        continue;
                    }
                    let v = judge(call, a[i], *y, Some(l));
                    rec.record(l, (1u64 << 61) + ((i * nb + j) * 10 + call) as u64, v);
                }
            }
        });
    }
    // Iterator::sum == left fold: all sequences up to length L over a small alphabet
    let small: Vec<[f64; 2]> = {
        let mut v = vec![[0.0, 0.0], [-0.0, 0.0], [1.0, 0.0], [-1.0, 0.0], [1.0, 2f64.powi(-53)], [-1.0, 2f64.powi(-54)], [1.0 + 2f64.powi(-52), -2f64.powi(-54)], [2f64.powi(60), 1.5], [2f64.powi(-60), 2f64.powi(-130)], [3.0, -2f64.powi(-130)], [-3.0, 2f64.powi(-130)], [core::f64::consts::PI, 1.2246467991473532e-16], [2f64.powi(-120), 0.0], [-2f64.powi(120), 2f64.powi(10)], [1e300, 1e280], [-1e300, -1e280], [2f64.powi(-1000), 0.0], [0.1, -5.551115123125783e-18]];
        v.retain(|w| tfref::big::dd_valid(w[0], w[1]));
        v
    };
    let n = small.len();
    let maxlen = if quick { 3 } else { 4 };
    let mut total = 0usize;
    for len in 0..=maxlen {
        total += n.pow(len as u32);
    }
    r.par("sum==fold", total.div_ceil(4096).max(1), 2 * total as u64, |c, l| {
        let lo = c * 4096;
        let hi = ((c + 1) * 4096).min(total);
        for t in lo..hi {
            // decode t into (len, digits)
            let mut rem = t;
            let mut len = 0;
            loop {
                let cnt = n.pow(len as u32);
                if rem < cnt {
                    break;
                }
                rem -= cnt;
                len += 1;
            }
            let mut seq = Vec::with_capacity(len);
            for _ in 0..len {
                seq.push(small[rem % n]);
                rem /= n;
            }
            for kind in 0..2 {
                let v = judge_sum(kind, &seq);
                rec.record(l, (1u64 << 62) + (t as u64) * 2 + kind as u64, v);
            }
        }
    });
    {
        // longer sequences over a cancellation alphabet: terms of both signs at scales 2^107, 2^53, 1, 2^-53,
        // 2^-110, so that large partial sums cancel and later small terms (and earlier rounding errors) decide
        // the result; a summation scheme other than the left fold with `+` (cascaded, pairwise, sorted) differs here
        let p = |k: i32| 2f64.powi(k);
        let his = [0.0, 1.0, -1.0, p(53) + 2.0, -(p(53) + 2.0), 1.5 * p(-53), -1.5 * p(-53), p(107) * (1.0 + p(-52)), -p(107) * (1.0 + p(-52)), core::f64::consts::PI, -core::f64::consts::PI * p(-60), 1.0 + p(-52), -(1.0 + p(-52)), 0.1 * p(-110)];
        let canc: Vec<[f64; 2]> = his.iter().map(|&h| [h, h * p(-54) * 1.25]).collect();
        assert!(canc.iter().all(|w| tfref::big::dd_valid(w[0], w[1])));
        let n = canc.len();
        let maxlen = if quick { 6 } else { 8 };
        let mut total = 0usize;
        for len in 4..=maxlen {
            total += n.pow(len as u32);
        }
        r.notes.push(format!("sum==fold, cancellation alphabet: ALL sequences of length 4..={} over {} terms (scales 2^107 .. 2^-113, both signs) = {} sequences x 2 item types x by-value/by-reference", maxlen, n, total));
        r.add_sample(json!({"call": "sum_f64", "sequence": [hexf(his[7]), hexf(his[2]), hexf(his[8]), hexf(his[5]), hexf(his[13])], "family": "cancellation alphabet"}));
        r.par("sum==fold (cancellation alphabet)", total.div_ceil(16384).max(1), 2 * total as u64, |c, l| {
            let lo = c * 16384;
            let hi = ((c + 1) * 16384).min(total);
            for t in lo..hi {
                let mut rem = t;
                let mut len = 4;
                loop {
                    let cnt = n.pow(len as u32);
                    if rem < cnt {
                        break;
                    }
                    rem -= cnt;
                    len += 1;
                }
                let mut seq = Vec::with_capacity(len);
                for _ in 0..len {
                    seq.push(canc[rem % n]);
                    rem /= n;
                }
                for kind in 0..2 {
                    let v = judge_sum(kind, &seq);
                    rec.record(l, (3u64 << 60) + (t as u64) * 2 + kind as u64, v);
                }
            }
        });
    }
    long_sums(r, (5u64 << 60));
    {
        // generic stream: both operands with full-size mantissas in both words; the second operand's exponent is
        // tied to the first one's (offsets -3..3) so that the words interact
        let n: u64 = if quick { 3_000_000 } else { 300_000_000 };
        r.notes.push(format!("generic stream: {} pairs from a fixed Weyl sequence (full 52-bit fractions in all four words, exponents over the whole claimed range, exponent offset -3..3)", n));
        let chunk = 1u64 << 16;
        r.par("generic stream (fixed Weyl sequence)", (n / chunk) as usize, n, |c, l| {
            for i in (c as u64 * chunk)..((c as u64 + 1) * chunk) {
                let a = match tfref::alpha::generic_dd(i, 51, -1000 + 3, 999 - 3) {
                    Some(a) => a,
                    None => continue,
                };
                let ea = crate::grid::exp_of(a[0]);
                let d = (i % 7) as i32 - 3;
                let b = match tfref::alpha::generic_dd(i, 1000 + (i % 13), ea + d, ea + d) {
                    Some(b) => b,
                    None => continue,
                };
                for call in 0..4usize {
                    let v = judge(call, a, b, Some(l));
                    rec.record(l, (1u64 << 62) + i * 8 + call as u64, v);
                }
            }
        });
    }
    {
        // the same object on both sides: `&x +/- &x` (aliased references), which a squaring / self-cancellation shortcut keyed on
        // pointer identity would treat differently from two equal values; judged with the oracle of (x, x)
        let xs = crate::fx::self_alphabet(quick, -1000, 999, 301);
        let nx = xs.len();
        r.notes.push(format!("aliased operands (&x +/- &x, one object): {} operands (grid over exponents -1000..999, one-call chain states, generic stream)", nx));
        r.par("aliased operands: &x +/- &x", nx.div_ceil(4096), nx as u64, |c, l| {
            for i in (c * 4096)..((c + 1) * 4096).min(nx) {
                for call in [12usize, 13] {
                    let v = judge(call, xs[i], xs[i], Some(l));
                    rec.record(l, (5u64 << 59) + (i * 4 + call % 4) as u64, v);
                }
            }
        });
    }
    {
        use crate::api::Op;
        let pairs = [([1.5, 1e-17], [1.25, -3e-18]), ([1.0, 2f64.powi(-54)], [-1.0, 2f64.powi(-55)]), ([3.0, 0.0], [1e-30, 1e-47]), ([2f64.powi(100), 1.0], [1.0, 2f64.powi(-60)])];
        let mut groups = crate::hist::binary_groups(&[Op::sub, Op::add], &pairs);
        groups.extend(crate::hist::binary_groups(&[Op::sub_assign, Op::add_assign, Op::sub_f], &pairs[..2]));
        crate::hist::explore(r, "histories: + and - (operand orders, signs, assign forms)", &groups, 3, &hist_judge, 14u64 << 55);
        // cross-family histories: the same judged calls, preceded by every other public function on the same operands
        crate::hist::explore_mixed(r, "cross-family histories: any public call, then + and - (operand orders, signs, assign forms)", &groups, 2, &hist_judge, (14u64 << 55) + (1u64 << 53));
    }
}
