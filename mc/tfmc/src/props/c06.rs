//! C06 — comparison, equality and sign queries agree with the exact real value.
use crate::api::{st, Op};
use crate::grid::dedup;
use crate::run::{api, Runner, Verdict};
use crate::util::{hexf, next_down, next_up, show_dd};
use core::cmp::Ordering;
use serde_json::json;
use tfref::alpha::{gen_fracs, mk_f64, run_bounded_at};
use tfref::big::{dd_valid_fast, Dy};

#[derive(Clone)]
pub struct Val {
    pub w: [f64; 2],
    pub valid: bool,
    pub has_nan: bool,
    pub dy: Option<Dy>,
}

pub fn mkval(w: [f64; 2]) -> Val {
    let valid = dd_valid_fast(w[0], w[1]);
    Val { w, valid, has_nan: w[0].is_nan() || w[1].is_nan(), dy: if valid { Some(Dy::from_dd(w[0], w[1])) } else { None } }
}

fn ord_code(o: Option<Ordering>) -> i8 {
    match o {
        None => 2,
        Some(Ordering::Less) => -1,
        Some(Ordering::Equal) => 0,
        Some(Ordering::Greater) => 1,
    }
}

/// all observations on the ordered pair (a, b) of TwoFloats
pub fn judge_pair(a: &Val, b: &Val) -> Verdict {
    let args = [a.w[0].to_bits(), a.w[1].to_bits(), b.w[0].to_bits(), b.w[1].to_bits()];
    let x = st::mk(a.w);
    let y = st::mk(b.w);
    let obs = api(|| (x == y, y == x, x != y, x.partial_cmp(&y), y.partial_cmp(&x), x < y, x <= y, x > y, x >= y));
    let (eq, eqr, ne, pc, pcr, lt, le, gt, ge) = match obs {
        Ok(o) => o,
        Err(m) => return Verdict::fail("no_panic", "cmp", &args, format!("panic: {}", m), "booleans".into(), "panic"),
    };
    let show = format!("==:{} rev==:{} !=:{} partial_cmp:{:?} rev:{:?} <:{} <=:{} >:{} >=:{}", eq, eqr, ne, pc, pcr, lt, le, gt, ge);
    // structural clauses for every pair (valid or not)
    if eq != eqr {
        return Verdict::fail("eq_symmetric", "eq", &args, show, "a == b <=> b == a".into(), "asymmetric_eq");
    }
    if ne == eq {
        return Verdict::fail("ne_is_not_eq", "ne", &args, show, "a != b <=> !(a == b)".into(), "ne_inconsistent");
    }
    if eq != (pc == Some(Ordering::Equal)) {
        return Verdict::fail("eq_iff_cmp_equal", "eq", &args, show, "a == b <=> partial_cmp == Some(Equal)".into(), "eq_cmp_inconsistent");
    }
    // the ordering clauses are claimed for valid operands (and, through the NaN clause below, for operands
    // with a NaN word); nothing is claimed about how an infinite marker orders against other values
    let both_valid = a.valid && b.valid;
    if both_valid && (lt != (pc == Some(Ordering::Less)) || le != matches!(pc, Some(Ordering::Less | Ordering::Equal)) || gt != (pc == Some(Ordering::Greater)) || ge != matches!(pc, Some(Ordering::Greater | Ordering::Equal))) {
        return Verdict::fail("ops_match_partial_cmp", "lt/le/gt/ge", &args, show, "<,<=,>,>= consistent with partial_cmp".into(), "op_cmp_inconsistent");
    }
    if both_valid && pc.map(|o| o.reverse()) != pcr {
        return Verdict::fail("cmp_antisymmetric", "partial_cmp", &args, show, "partial_cmp(b,a) == reverse(partial_cmp(a,b))".into(), "cmp_not_antisymmetric");
    }
    if a.has_nan || b.has_nan {
        if eq || pc.is_some() || pcr.is_some() || lt || le || gt || ge {
            return Verdict::fail("nan_unordered", "cmp", &args, show, "an operand with a NaN word is unequal and unordered in both argument orders".into(), "nan_compared");
        }
    }
    if let (Some(da), Some(db)) = (&a.dy, &b.dy) {
        let want = da.cmp(db);
        if pc != Some(want) {
            return Verdict::fail("exact_order", "partial_cmp", &args, show, format!("{:?} (exact comparison of hi+lo)", want), "wrong_order");
        }
    }
    // min / max
    let mm = api(|| (x.min(y), x.max(y), <st::TF as num_traits::Float>::min(x, y), <st::TF as num_traits::Float>::max(x, y)));
    let (mn, mx, mnt, mxt) = match mm {
        Ok(o) => o,
        Err(m) => return Verdict::fail("no_panic", "min/max", &args, format!("panic: {}", m), "values".into(), "panic"),
    };
    let bits = |t: st::TF| [t.hi().to_bits(), t.lo().to_bits()];
    let is = |t: st::TF, v: &Val| crate::api::canon(bits(t)[0]) == crate::api::canon(v.w[0].to_bits()) && crate::api::canon(bits(t)[1]) == crate::api::canon(v.w[1].to_bits());
    if bits(mn) != bits(mnt) || bits(mx) != bits(mxt) {
        if !(is(mn, a) && is(mnt, a) || is(mn, b) && is(mnt, b)) || !(is(mx, a) && is(mxt, a) || is(mx, b) && is(mxt, b)) {
            return Verdict::fail("minmax_trait", "min/max", &args, format!("{} {} vs trait {} {}", show_dd([mn.hi(), mn.lo()]), show_dd([mx.hi(), mx.lo()]), show_dd([mnt.hi(), mnt.lo()]), show_dd([mxt.hi(), mxt.lo()])), "identical".into(), "trait_differs");
        }
    }
    let shown = format!("min={} max={}", show_dd([mn.hi(), mn.lo()]), show_dd([mx.hi(), mx.lo()]));
    match (&a.dy, &b.dy) {
        (Some(da), Some(db)) => {
            let c = da.cmp(db);
            let ok_min = match c {
                Ordering::Less => is(mn, a),
                Ordering::Greater => is(mn, b),
                Ordering::Equal => is(mn, a) || is(mn, b),
            };
            let ok_max = match c {
                Ordering::Less => is(mx, b),
                Ordering::Greater => is(mx, a),
                Ordering::Equal => is(mx, a) || is(mx, b),
            };
            if !ok_min {
                return Verdict::fail("min", "min", &args, shown, "the operand with the smaller exact value".into(), "wrong_operand");
            }
            if !ok_max {
                return Verdict::fail("max", "max", &args, shown, "the operand with the larger exact value".into(), "wrong_operand");
            }
        }
        (Some(_), None) => {
            if !is(mn, a) || !is(mx, a) {
                return Verdict::fail("minmax_skip_invalid", "min/max", &args, shown, "the valid operand (invalid one skipped)".into(), "returned_invalid");
            }
        }
        (None, Some(_)) => {
            if !is(mn, b) || !is(mx, b) {
                return Verdict::fail("minmax_skip_invalid", "min/max", &args, shown, "the valid operand (invalid one skipped)".into(), "returned_invalid");
            }
        }
        _ => {}
    }
    // copysign (both valid, both non-zero)
    if let (Some(da), Some(db)) = (&a.dy, &b.dy) {
        if !da.is_zero() && !db.is_zero() {
            match api(|| (x.copysign(&y), <st::TF as num_traits::Float>::copysign(x, y))) {
                Err(m) => return Verdict::fail("no_panic", "copysign", &args, format!("panic: {}", m), "a value".into(), "panic"),
                Ok((c, ct)) => {
                    let want = if db.is_neg() { da.abs().neg() } else { da.abs() };
                    for (nm, c) in [("copysign", c), ("Float::copysign", ct)] {
                        if !dd_valid_fast(c.hi(), c.lo()) || !Dy::from_dd(c.hi(), c.lo()).eq(&want) {
                            return Verdict::fail("copysign", nm, &args, show_dd([c.hi(), c.lo()]), "|a| with the sign of the exact value of b".into(), "wrong_value");
                        }
                    }
                }
            }
        }
    }
    Verdict::Pass
}

/// comparisons of a valid TwoFloat with an f64 in both orders
pub fn judge_f64(a: &Val, c: f64) -> Verdict {
    let args = [a.w[0].to_bits(), a.w[1].to_bits(), c.to_bits()];
    let da = match &a.dy {
        Some(d) => d,
        None => return Verdict::Skip,
    };
    let x = st::mk(a.w);
    let obs = api(|| (x == c, c == x, x != c, c != x, x.partial_cmp(&c), c.partial_cmp(&x), x < c, x <= c, x > c, x >= c, c < x, c <= x, c > x, c >= x));
    let o = match obs {
        Ok(o) => o,
        Err(m) => return Verdict::fail("no_panic", "cmp_f64", &args, format!("panic: {}", m), "booleans".into(), "panic"),
    };
    let want: Option<Ordering> = if c.is_nan() {
        None
    } else if c == f64::INFINITY {
        Some(Ordering::Less)
    } else if c == f64::NEG_INFINITY {
        Some(Ordering::Greater)
    } else {
        Some(da.cmp(&Dy::from_f64(c)))
    };
    let w = ord_code(want);
    let wr = ord_code(want.map(|x| x.reverse()));
    let got: ([bool; 12], [Option<Ordering>; 2]) = ([o.0, o.1, o.2, o.3, o.6, o.7, o.8, o.9, o.10, o.11, o.12, o.13], [o.4, o.5]);
    let exp: ([bool; 12], [Option<Ordering>; 2]) = ([w == 0, w == 0, w != 0, w != 0, w == -1, w == -1 || w == 0, w == 1, w == 1 || w == 0, wr == -1, wr == -1 || wr == 0, wr == 1, wr == 1 || wr == 0], [want, want.map(|x| x.reverse())]);
    if got != exp {
        return Verdict::fail("exact_order_f64", "cmp_f64", &args, format!("{:?}", got), format!("{:?} (exact comparison of hi+lo with c; order: x==c c==x x!=c c!=x x<c x<=c x>c x>=c c<x c<=x c>x c>=x; partial_cmp both orders)", exp), "wrong_order");
    }
    Verdict::Pass
}

/// unary sign queries on a valid value
pub fn judge_unary(a: &Val) -> Verdict {
    let args = [a.w[0].to_bits(), a.w[1].to_bits()];
    let da = match &a.dy {
        Some(d) => d,
        None => return Verdict::Skip,
    };
    let x = st::mk(a.w);
    let o = api(|| (x.abs(), <st::TF as num_traits::Signed>::abs(&x), x.is_sign_positive(), x.is_sign_negative(), x.signum(), <st::TF as num_traits::Signed>::is_positive(&x), <st::TF as num_traits::Signed>::is_negative(&x)));
    let (ab, abt, sp, sn, sg, tp, tn) = match o {
        Ok(o) => o,
        Err(m) => return Verdict::fail("no_panic", "sign", &args, format!("panic: {}", m), "values".into(), "panic"),
    };
    for (nm, t) in [("abs", ab), ("Signed::abs", abt)] {
        if !dd_valid_fast(t.hi(), t.lo()) || !Dy::from_dd(t.hi(), t.lo()).eq(&da.abs()) {
            return Verdict::fail("abs", nm, &args, show_dd([t.hi(), t.lo()]), "exact value |x|".into(), "wrong_value");
        }
    }
    if !da.is_zero() {
        let neg = da.is_neg();
        if sn != neg || sp == neg || tn != neg || tp == neg {
            return Verdict::fail("sign_query", "is_sign_negative", &args, format!("is_sign_positive={} is_sign_negative={} Signed: {} {}", sp, sn, tp, tn), format!("negative = {}", neg), "wrong_sign");
        }
        let want = if neg { -1.0 } else { 1.0 };
        if !(sg.hi() == want && sg.lo() == 0.0) {
            return Verdict::fail("signum", "signum", &args, show_dd([sg.hi(), sg.lo()]), format!("{}", want), "wrong_value");
        }
    }
    Verdict::Pass
}

pub fn hist_judge(c: &crate::hist::HCall, _l: Option<&mut crate::run::Local>) -> Verdict {
    if c.kind == 1 {
        return match c.code {
            10 => judge_pair(&mkval(c.a), &mkval(c.b)),
            11 => judge_f64(&mkval(c.a), c.b[0]),
            // validity queries / checked construction: part of the history only (C07 judges them)
            _ => Verdict::Skip,
        };
    }
    match c.as_op() {
        Some(Op::signum) | Some(Op::abs) => judge_unary(&mkval(c.a)),
        Some(Op::min) | Some(Op::max) | Some(Op::copysign) => judge_pair(&mkval(c.a), &mkval(c.b)),
        _ => Verdict::Skip,
    }
}

pub fn replay(call: &str, _clause: &str, args: &[u64]) -> Verdict {
    if call == "hist" {
        return crate::hist::replay(args, &hist_judge);
    }
    let a = mkval([f64::from_bits(args[0]), f64::from_bits(args[1])]);
    match call {
        "cmp_f64" => judge_f64(&a, f64::from_bits(args[2])),
        "sign" | "abs" | "Signed::abs" | "is_sign_negative" | "signum" if args.len() == 2 => judge_unary(&a),
        _ => judge_pair(&a, &mkval([f64::from_bits(args[2]), f64::from_bits(args[3])])),
    }
}

/// valid alphabet: for each high word the neighbours differing only in lo, by one ulp of lo,
/// only in the sign of zero; adjacent high words; ties.
pub fn valid_alphabet(quick: bool) -> Vec<[f64; 2]> {
    let mut his: Vec<f64> = vec![0.0, -0.0];
    let pos: Vec<u32> = vec![1, 51];
    let mut fr = run_bounded_at(52, 2, &pos);
    fr.extend(gen_fracs(if quick { 1 } else { 3 }));
    let exps: Vec<i32> = if quick { vec![-1022, -1, 0, 1, 1023] } else { vec![-1022, -1021, -500, -2, -1, 0, 1, 2, 53, 500, 1022, 1023] };
    for &e in &exps {
        for &f in &fr {
            for s in [false, true] {
                let h = mk_f64(s, e, f).unwrap();
                his.push(h);
                his.push(next_up(h));
                his.push(next_down(h));
            }
        }
    }
    his.push(5e-324);
    his.push(-5e-324);
    his.push(f64::MAX);
    his.push(f64::MIN);
    let mut v: Vec<[f64; 2]> = Vec::new();
    for &h in &his {
        v.push([h, 0.0]);
        v.push([h, -0.0]);
        if h == 0.0 || !h.is_finite() {
            continue;
        }
        let e = crate::grid::exp_of(h);
        for g in if quick { vec![0, 1, 30] } else { vec![0, 1, 2, 30, 53, 200] } {
            let le = e - 53 - g;
            if le < -1074 {
                continue;
            }
            let l0 = if le >= -1022 { 2f64.powi(le) } else { tfref::big::pow2_f64(le) };
            for l in [l0, next_up(l0), next_down(l0)] {
                for s in [1.0, -1.0] {
                    let lo = s * l;
                    if lo != 0.0 && dd_valid_fast(h, lo) {
                        v.push([h, lo]);
                    }
                }
            }
        }
        for lo in [5e-324, -5e-324] {
            if dd_valid_fast(h, lo) {
                v.push([h, lo]);
            }
        }
    }
    dedup(&mut v);
    v
}

/// Invalid / non-finite values reachable through the API: breadth-first from overflow and
/// invalid-operation seeds, keeping up to `reps` representatives per class pattern.
pub fn reachable_invalid(reps: usize) -> (Vec<[f64; 2]>, usize) {
    fn class(x: f64) -> u8 {
        if x.is_nan() {
            0
        } else if x == f64::INFINITY {
            1
        } else if x == f64::NEG_INFINITY {
            2
        } else if x == 0.0 {
            3
        } else if x > 0.0 {
            4
        } else {
            5
        }
    }
    let seeds: Vec<[f64; 2]> = {
        let t = |x: st::TF| [x.hi(), x.lo()];
        vec![
            t(st::TF::INFINITY),
            t(st::TF::NEG_INFINITY),
            t(st::TF::NAN),
            t(st::TF::from(f64::INFINITY)),
            t(st::TF::from(f64::NEG_INFINITY)),
            t(st::TF::from(f64::NAN)),
            t(st::TF::new_add(f64::INFINITY, 1.0)),
            t(st::TF::new_mul(1e300, 1e300)),
            t(st::TF::new_mul(-1e300, 1e300)),
            t(st::TF::new_div(1.0, 0.0)),
            t(st::TF::new_div(0.0, 0.0)),
            t(st::TF::MAX + st::TF::MAX),
            t(st::TF::MIN + st::TF::MIN),
            t(st::TF::MAX * 2.0),
            t(st::TF::from(1000.0).exp()),
            t(st::TF::from(2000.0).exp2()),
            t(st::TF::from(-1.0).sqrt()),
            t(st::TF::from(0.0).ln()),
            t(st::TF::from(0.0) / st::TF::from(0.0)),
            t(st::TF::from(1.0) / st::TF::from(0.0)),
            t(st::TF::from(-1.0) / 0.0),
            t(st::TF::from(0.0).powi(0)),
        ]
    };
    let finite_partners: Vec<[f64; 2]> = vec![[1.0, 0.0], [-1.0, 0.0], [0.0, 0.0], [1e300, 1e280], [2.5, -1e-20]];
    let mut seen: std::collections::BTreeMap<(u8, u8), Vec<[f64; 2]>> = Default::default();
    let mut frontier: Vec<[f64; 2]> = vec![];
    let mut add = |w: [f64; 2], seen: &mut std::collections::BTreeMap<(u8, u8), Vec<[f64; 2]>>, fr: &mut Vec<[f64; 2]>| {
        if dd_valid_fast(w[0], w[1]) {
            return;
        }
        let e = seen.entry((class(w[0]), class(w[1]))).or_default();
        let cw = [crate::api::canon(w[0].to_bits()), crate::api::canon(w[1].to_bits())];
        if e.len() < reps && !e.iter().any(|o| [crate::api::canon(o[0].to_bits()), crate::api::canon(o[1].to_bits())] == cw) {
            e.push(w);
            fr.push(w);
        }
    };
    for s in seeds {
        add(s, &mut seen, &mut frontier);
    }
    let mut transitions = 0usize;
    for _depth in 0..3 {
        let cur = std::mem::take(&mut frontier);
        for &w in &cur {
            for &op in Op::ALL {
                if op.is_ctor() || op == Op::sin_cos || op == Op::powi {
                    continue;
                }
                let partners: Vec<[f64; 2]> = if op.arity() == 1 { vec![[0.0, 0.0]] } else { finite_partners.iter().cloned().chain(cur.iter().cloned().take(6)).collect() };
                for p in partners {
                    for (a, b) in [(w, p), (p, w)] {
                        if op.arity() == 1 && a != w {
                            continue;
                        }
                        let r = st::call(op, a, b);
                        transitions += 1;
                        if r.k == 0 {
                            add(r.dd(), &mut seen, &mut frontier);
                        }
                    }
                }
            }
        }
    }
    let mut v = vec![];
    for (_, e) in seen {
        v.extend(e);
    }
    (v, transitions)
}

pub fn run(r: &mut Runner) {
    let quick = r.quick();
    let mut valid = valid_alphabet(quick);
    {
        // organic operands: chain results, which carry low words no alphabet would construct
        let org = crate::organic::states(1);
        valid.extend(org.iter().step_by(if quick { 8 } else { 1 }).cloned());
        dedup(&mut valid);
    }
    let (inv, bfs_tr) = reachable_invalid(if quick { 2 } else { 4 });
    let nvalid = valid.len();
    let ninv = inv.len();
    let vals: Vec<Val> = valid.iter().chain(inv.iter()).map(|w| mkval(*w)).collect();
    let n = vals.len();
    r.notes.push(format!("{} valid values (each high word with its neighbours differing only in lo, by one ulp of lo, in the sign of zero; adjacent high words), {} reachable invalid / non-finite representatives (class-pattern BFS, {} API transitions): {:?}", nvalid, ninv, bfs_tr, inv.iter().map(|w| show_dd(*w)).collect::<Vec<_>>()));
    r.transitions += bfs_tr as u64;
    r.add_sample(json!({"a": show_dd(valid[nvalid / 2]), "b": show_dd(valid[nvalid / 2 + 1])}));
    r.add_sample(json!({"a": show_dd(inv[0]), "b": show_dd(valid[3])}));
    let rec = r.recorder();
    r.par("ordered pairs (==,!=,<,<=,>,>=,partial_cmp,min,max,copysign)", n, (n * n) as u64, |i, l| {
        for j in 0..n {
            let v = judge_pair(&vals[i], &vals[j]);
            rec.record(l, (i * n + j) as u64, v);
        }
    });
    // f64 alphabet
    let mut cs: Vec<f64> = vec![0.0, -0.0, f64::INFINITY, f64::NEG_INFINITY, f64::NAN, f64::MAX, f64::MIN, 5e-324, -5e-324];
    for w in &valid {
        cs.push(w[0]);
        if w[1] != 0.0 {
            cs.push(w[1]);
        }
    }
    cs.sort_by(|a, b| a.to_bits().cmp(&b.to_bits()));
    cs.dedup_by(|a, b| a.to_bits() == b.to_bits());
    let nc = cs.len();
    r.notes.push(format!("{} f64 comparands (all high and low words of the valid alphabet, +-0, +-inf, NaN, extremes)", nc));
    r.add_sample(json!({"a": show_dd(valid[nvalid / 4]), "c": hexf(cs[nc / 2])}));
    r.par("TwoFloat vs f64 (both orders)", nvalid, (nvalid * nc) as u64, |i, l| {
        let a = &vals[i];
        for (j, &c) in cs.iter().enumerate() {
            rec.record(l, (1u64 << 50) + (i * nc + j) as u64, judge_f64(a, c));
        }
    });
    r.par("abs / signum / sign queries", 1, nvalid as u64, |_, l| {
        for i in 0..nvalid {
            rec.record(l, (1u64 << 52) + i as u64, judge_unary(&vals[i]));
        }
    });
    {
        // every exponent: power-of-two, 1.5 * 2^e and all-ones high words with the low word at the quarter-ulp and
        // half-ulp thresholds (either sign) and at the smallest subnormals - values on which a validity test can go
        // wrong in one binade only and which the comparisons then treat as invalid; each is compared with itself,
        // its high word alone, its negation, 0, 1 and the next value, and put through the unary queries
        let es: Vec<i32> = (-1022..=1023).collect();
        r.notes.push("every-exponent sweep: 2046 exponents x 3 fractions x 2 signs x low words at +-(1/4, 1/2) ulp with neighbours, +-2^-1074, +-2^-1073: ordering against 6 partners in both orders, and the unary queries".to_string());
        r.par("every exponent: threshold low words", es.len(), (es.len() * 3 * 2 * 16 * 13) as u64, |c, l| {
            let e = es[c];
            let mut i = 0u64;
            for f in [0u64, 1u64 << 51, (1u64 << 52) - 1] {
                for s in [false, true] {
                    let h = mk_f64(s, e, f).unwrap();
                    let mut los: Vec<f64> = vec![5e-324, -5e-324, 1e-323, -1e-323];
                    for te in [e - 53, e - 54] {
                        if te >= -1074 {
                            let t = tfref::big::pow2_f64(te);
                            for k in -1..=1 {
                                let b = crate::util::step(t, k);
                                los.push(b);
                                los.push(-b);
                            }
                        }
                    }
                    for lo in los {
                        if lo == 0.0 || !dd_valid_fast(h, lo) {
                            continue;
                        }
                        let x = mkval([h, lo]);
                        rec.record(l, (3u64 << 60) + ((c as u64) << 16) + i, judge_unary(&x));
                        i += 1;
                        for pw in [[h, lo], [h, 0.0], [-h, -lo], [0.0, 0.0], [1.0, 0.0], [h, -lo], [next_up(h), 0.0]] {
                            if !dd_valid_fast(pw[0], pw[1]) {
                                continue;
                            }
                            let y = mkval(pw);
                            rec.record(l, (3u64 << 60) + ((c as u64) << 16) + i, judge_pair(&x, &y));
                            i += 1;
                            rec.record(l, (3u64 << 60) + ((c as u64) << 16) + i, judge_pair(&y, &x));
                            i += 1;
                        }
                    }
                }
            }
        });
    }
    {
        use crate::hist::HCall;
        // a valid value at a validity threshold, its mirror image (invalid: rejected by try_from), comparisons and sign
        // queries, in every order: a rejected construction must not influence a later comparison
        let mut groups: Vec<Vec<HCall>> = vec![];
        for (h, lo) in [(1.0, 2f64.powi(-53)), (4.0, 0.75 * 2f64.powi(-51)), (-2.0, -2f64.powi(-52)), (1.5, 2f64.powi(-53))] {
            let x = [h, lo];
            let m = [h, -lo];
            let two = [2.0 * h.abs() + 1.0, 0.0];
            groups.push(vec![
                HCall::ext(13, m, [0.0, 0.0]),
                HCall::ext(13, x, [0.0, 0.0]),
                HCall::ext(10, x, two),
                HCall::ext(10, two, x),
                HCall::ext(11, x, two),
                HCall::op(Op::signum, x, [0.0, 0.0]),
                HCall::op(Op::min, x, two),
                HCall::op(Op::abs, [-h, -lo], [0.0, 0.0]),
            ]);
        }
        crate::hist::explore(r, "histories: validity queries / rejected constructions before comparisons", &groups, 3, &hist_judge, 1u64 << 61);
    }
}
