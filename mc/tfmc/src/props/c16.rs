//! C16 — sin, cos, sin_cos, tan: accuracy floors and consistency.
use crate::api::{canon, st};
use crate::fx::{bfx, grid, is_invalid, judge_tol, words};
use crate::grid::{dedup, with_los};
use crate::run::{api, Local, Runner, Verdict};
use crate::util::{show_dd, step};
use serde_json::json;
use tfref::bf::{Bf, Iv};
use tfref::big::dd_valid_fast;
use tfref::oracle::{max_iv, plus_pow2};
use tfref::rf;

/// region tag for known findings: is x within relative 2^-100 of an odd multiple of pi/2 ?
fn region(v: &Bf) -> &'static str {
    if v.is_zero() {
        return "other";
    }
    let p = 400;
    let hp = rf::pi(p).mul_pow2(-1);
    let k = (v.approx_f64() / core::f64::consts::FRAC_PI_2).round() as i64;
    if k % 2 == 0 {
        return "other";
    }
    let r = Iv::point(v).sub(&hp.mul(&Iv::from_i64(k), p), p);
    let m = r.mag();
    if m.is_zero() || m.msb() < v.msb() - 104 {
        "x_within_2^-104_rel_of_odd_multiple_of_half_pi"
    } else if m.msb() < v.msb() - 80 {
        "x_within_2^-80_rel_of_odd_multiple_of_half_pi"
    } else {
        "other"
    }
}

pub fn judge(x: [f64; 2], mut l: Option<&mut Local>) -> Verdict {
    let args = words(x);
    let t = st::mk(x);
    let res = api(|| (t.sin(), t.cos(), t.sin_cos(), t.tan()));
    let (s, c, sc, tn) = match res {
        Ok(r) => r,
        Err(m) => return Verdict::fail("no_panic", "trig", &args, format!("panic: {}", m), "values".into(), "panic"),
    };
    let w = |a: st::TF| [a.hi(), a.lo()];
    let same = |a: st::TF, b: st::TF| canon(a.hi().to_bits()) == canon(b.hi().to_bits()) && canon(a.lo().to_bits()) == canon(b.lo().to_bits());
    if !same(sc.0, s) || !same(sc.1, c) {
        return Verdict::fail("sin_cos == (sin, cos)", "sin_cos", &args, format!("({}, {})", show_dd(w(sc.0)), show_dd(w(sc.1))), format!("({}, {})", show_dd(w(s)), show_dd(w(c))), "identity_broken");
    }
    if !dd_valid_fast(x[0], x[1]) {
        // invalid argument -> invalid result
        for (nm, r) in [("sin", s), ("cos", c), ("tan", tn)] {
            if !is_invalid(w(r)) {
                return Verdict::fail("invalid in -> invalid out", nm, &args, show_dd(w(r)), "an invalid value".into(), "valid_for_invalid_argument");
            }
        }
        return Verdict::Pass;
    }
    let v = bfx(x);
    if v.is_zero() {
        let ok = s.hi() == 0.0 && s.lo() == 0.0 && c.hi() == 1.0 && c.lo() == 0.0 && tn.hi() == 0.0 && tn.lo() == 0.0;
        return if ok { Verdict::Pass } else { Verdict::fail("sin(0)=0, cos(0)=1, tan(0)=0", "trig", &args, format!("{} {} {}", show_dd(w(s)), show_dd(w(c)), show_dd(w(tn))), "0, 1, 0".into(), "wrong_value") };
    }
    if !v.abs().le(&Bf::pow2(20)) {
        return Verdict::Skip;
    }
    let small = v.abs().le(&Bf::from_f64(0.7853981633974483)); // |x| <= pi/4 (the f64 below pi/4: a thin strip is left out)
    let vs = judge_tol("sin: 2^-66 abs", "sin", &args, w(s), |p| {
        let (e, _) = rf::sincos_pt(&v, p);
        let tol = Iv::point(&Bf::pow2(-66));
        Some((e, tol))
    }, l.as_deref_mut());
    if vs.is_fail() {
        return vs;
    }
    if small {
        let vr = judge_tol("sin: 2^-64 rel (|x| <= pi/4)", "sin", &args, w(s), |p| {
            let (e, _) = rf::sincos_pt(&v, p);
            let tol = e.abs().mul_pow2(-64);
            Some((e, tol))
        }, l.as_deref_mut());
        if vr.is_fail() {
            return vr;
        }
    }
    let vc = judge_tol("cos: 2^-66 abs", "cos", &args, w(c), |p| {
        let (_, e) = rf::sincos_pt(&v, p);
        Some((e, Iv::point(&Bf::pow2(-66))))
    }, l.as_deref_mut());
    if vc.is_fail() {
        return vc;
    }
    let vt = judge_tol("tan: 2^-50 max(|tan|,2^-30) + 2^-80 (1+tan^2)", "tan", &args, w(tn), |p| {
        let e = rf::tan_pt(&v, p);
        let a = max_iv(&e.abs(), &Iv::point(&Bf::pow2(-30))).mul_pow2(-50);
        let b = plus_pow2(&e.sqr(p), 0, p).mul_pow2(-80);
        Some((e, a.add(&b, p)))
    }, l);
    if vt.is_fail() {
        return vt.with_region(&[region(&v)]);
    }
    Verdict::Pass
}

/// history exploration: the judge of one call (all four functions are evaluated on the argument)
pub fn hist_judge(c: &crate::hist::HCall, l: Option<&mut Local>) -> Verdict {
    judge(c.a, l)
}

pub fn replay(call: &str, _clause: &str, args: &[u64]) -> Verdict {
    if call == "hist" {
        return crate::hist::replay(args, &hist_judge);
    }
    judge([f64::from_bits(args[0]), f64::from_bits(args[1])], None)
}

pub fn alphabet(quick: bool) -> Vec<[f64; 2]> {
    let mut v: Vec<[f64; 2]> = vec![];
    // both sides of every multiple of pi/4: the double-double nearest to k*pi/4, its neighbours, ties
    let p = 300;
    let qp = rf::pi(p).mul_pow2(-2);
    let kmax: i64 = if quick { 4096 } else { 1 << 16 };
    let mut ks: Vec<i64> = (1..=kmax).collect();
    // quadratic ladder above, up to 2^20 / (pi/4) ~ 1.33e6
    let mut k = kmax;
    let mut stepk = 1i64;
    while k < 1_335_088 {
        ks.push(k);
        ks.push(k + 1);
        ks.push(k + 2);
        ks.push(k + 3);
        stepk += if quick { 97 } else { 3 };
        k += stepk;
    }
    for kk in [1_335_080i64, 1_335_081, 1_335_082, 1_335_083, 1_335_084, 1_335_085, 1_335_086, 1_335_087] {
        ks.push(kk);
    }
    for &k in &ks {
        let e = qp.mul(&Iv::from_i64(k), p);
        let d = e.lo.to_dy();
        if let Some((h, lo)) = d.to_dd_rn() {
            for s in [1.0, -1.0] {
                v.push([s * h, s * lo]);
            }
            if !quick || k % 16 == 1 || k <= 64 || k > kmax {
                // offsets between the double-double resolution and the f64 resolution of x: k*pi/4 + |x| 2^-j
                for j in 58..=106 {
                    for sg in [1.0, -1.0] {
                        let l2 = lo + sg * h.abs() * 2f64.powi(-j);
                        if dd_valid_fast(h, l2) {
                            v.push([h, l2]);
                        }
                    }
                }
            }
            if !quick || k % 8 == 1 || k <= 64 {
                v.push([h, 0.0]);
                v.push([h, step(lo, 1)]);
                v.push([h, step(lo, -1)]);
                for dh in [-3, -1, 1, 3] {
                    let h2 = step(h, dh);
                    v.push([h2, 0.0]);
                    // exact remainder as low word: k*pi/4 - h2 (rounded)
                    let rem = d.sub_f64(h2).to_f64_rn().0;
                    if dd_valid_fast(h2, rem) {
                        v.push([h2, rem]);
                    }
                    // half-ulp ties
                    let tie = 2f64.powi(crate::grid::exp_of(h2) - 53);
                    if dd_valid_fast(h2, tie) {
                        v.push([h2, tie]);
                    }
                    if dd_valid_fast(h2, -tie) {
                        v.push([h2, -tie]);
                    }
                }
            }
        }
    }
    // generic grid and ladders towards 0
    let exps: Vec<i32> = if quick { (-1074..=19).step_by(17).chain(-120..=19).collect() } else { (-1074..=19).collect() };
    v.extend(grid(&exps, quick, 81));
    v.extend(crate::fx::linear_ladder(1, 1024, 128.0, true));
    for z in [[0.0, 0.0], [-0.0, 0.0], [2f64.powi(20), 0.0], [-2f64.powi(20), 0.0], [2f64.powi(20), 2f64.powi(-40)], [5e-324, 0.0]] {
        v.push(z);
    }
    // invalid arguments
    for z in [[f64::NAN, f64::NAN], [f64::INFINITY, f64::INFINITY], [f64::NEG_INFINITY, 0.0], [1.0, f64::NAN], [1.0, 1.0], [f64::INFINITY, 0.0], [1.0, f64::INFINITY]] {
        v.push(z);
    }
    // ... systematically: finite but overlapping pairs at every magnitude class (tiny, below pi/4, reduction range,
    // near 2^20), with the low word anywhere from a full overlap down to the odd-mantissa half-ulp tie; and every
    // combination of special words
    for e in [-1022, -1021, -1000, -600, -100, -30, -3, -1, 0, 1, 2, 5, 10, 19] {
        for f in [0u64, 1, (1u64 << 52) - 1, 0x8_0000_0000_0001, 0x5_5555_5555_5555] {
            let h = tfref::alpha::mk_f64(false, e, f).unwrap();
            for k in [0, 1, 2, 10, 26, 40, 51, 52, 53] {
                for m in [1.0, 1.5, 1.0 + 2f64.powi(-52)] {
                    for s in [1.0, -1.0] {
                        let lo = s * m * 2f64.powi(e - k);
                        if lo.is_finite() && lo != 0.0 && !tfref::big::dd_valid(h, lo) {
                            v.push([h, lo]);
                            v.push([-h, lo]);
                        }
                    }
                }
            }
        }
    }
    for h in [f64::INFINITY, f64::NEG_INFINITY, f64::NAN, 0.0, -0.0, 1.0, -3.0, 1e5, 5e-324, f64::MAX] {
        for lo in [f64::INFINITY, f64::NEG_INFINITY, f64::NAN, 1.0, -1e-3, 5e-324] {
            if !(h.is_finite() && lo.is_finite() && tfref::big::dd_valid(h, lo)) {
                v.push([h, lo]);
            }
        }
    }
    for h in [0.7853981633974483, 1.5707963267948966, 3.141592653589793, 6.283185307179586] {
        v.extend(with_los(h, &[0, 1, 30], &[0, (1u64 << 52) - 1], &[]));
    }
    dedup(&mut v);
    v
}

pub fn run(r: &mut Runner) {
    let quick = r.quick();
    let rec = r.recorder();
    let xs = alphabet(quick);
    let n = xs.len();
    r.notes.push(format!("{} arguments: the double-double nearest to k*pi/4 for every k up to {} and a quadratic ladder up to 2^20, each with +-1,3 ulp high-word neighbours, exact-remainder / neighbouring / tie low words, both signs; generic grid over exponents -1074..19; zeros; invalid arguments", n, if quick { 4096 } else { 65536 }));
    r.add_sample(json!({"x": show_dd(xs[n / 2]), "calls": ["sin", "cos", "sin_cos", "tan"]}));
    r.add_sample(json!({"x": show_dd(xs[7])}));
    r.par("sin, cos, sin_cos, tan", n.div_ceil(64), n as u64, |c, l| {
        for i in (c * 64)..((c + 1) * 64).min(n) {
            let v = judge(xs[i], Some(l));
            if !v.is_fail() {
                l.transitions += 3;
            }
            rec.record(l, i as u64, v);
        }
    });
    {
        let org = crate::organic::states(if quick { 1 } else { 2 });
        let no = org.len();
        r.notes.push(format!("organic operands: {} chain states (depth {} from the C01 seeds)", no, if quick { 1 } else { 2 }));
        r.par("organic operands (chain results)", no.div_ceil(64), no as u64, |c, l| {
            for i in (c * 64)..((c + 1) * 64).min(no) {
                let v = judge(org[i], Some(l));
                rec.record(l, (1u64 << 60) + i as u64, v);
            }
        });
    }
    {
        let gs = crate::fx::generic_stream(if quick { 15000 } else { 1500000 }, 116, -40, 19);
        let ngs = gs.len();
        r.notes.push(format!("generic stream for sin/cos/tan: {} operands of a fixed Weyl sequence (full-size mantissas in both words, exponents -40..19)", ngs));
        r.par("generic stream: sin/cos/tan", ngs.div_ceil(64), ngs as u64, |c, l| {
            for i in (c * 64)..((c + 1) * 64).min(ngs) {
                let v = judge(gs[i], Some(l));
                rec.record(l, (1u64 << 58) + i as u64, v);
            }
        });
    }
    {
        // double-double neighbourhoods (0..16 ulps and a geometric tail; thorough: 0..80 and tail) of nice values and of
        // their images under every elementary function: pre-images of nice results, where a result may be snapped
        let mut nb = crate::fx::nice_neighbourhoods(quick);
        // every exponent of the stated range with a thin set of fractions and low words, both signs (a rescaling step,
        // an exponent-indexed table or a branch on the exponent field may treat one binade differently)
        if quick {
            let all: Vec<i32> = (-1074..=19).collect();
            for w in crate::fx::grid_thin(&all, 1, 416) {
                nb.push(w);
                nb.push([-w[0], -w[1]]);
            }
        }
        // both sides of the end points of the stated ranges and of the documented internal thresholds
        nb.extend(crate::fx::edge_points(&[1048576.0, core::f64::consts::FRAC_PI_4], quick));
        let nn = nb.len();
        r.notes.push(format!("neighbourhoods of nice pre-images: {} operands ({} base points = integers, simple fractions, multiples of pi, e, ln 2, ln 10, sqrt 2, sqrt 3 and their images under every elementary function; offsets in double-double ulps on both sides)", nn, crate::fx::nice_bases().len()));
        r.par("neighbourhoods of nice pre-images", nn.div_ceil(64), nn as u64, |c, l| {
            for i in (c * 64)..((c + 1) * 64).min(nn) {
                let v = judge(nb[i], Some(l));
                rec.record(l, (1u64 << 56) + i as u64, v);
            }
        });
    }
    {
        use crate::api::Op;
        let bases: Vec<[f64; 2]> = vec![[1.5, 1e-17], [0.3, 0.0], [4.0, -1e-16], [2.5, 0.0], [100.5, 3e-15], [0.7853981633974483, 3.061616997868383e-17], [-7.0, 2e-16], [1e5, 1e-12]];
        let groups = crate::hist::unary_groups(&[Op::sin, Op::cos], &bases, [0.9, 1e-18]);
        crate::hist::explore(r, "histories: sin/cos/tan/sin_cos", &groups, 3, &hist_judge, 14u64 << 55);
        // cross-family histories: the same judged calls, preceded by every other public function on the same operands
        crate::hist::explore_mixed(r, "cross-family histories: any public call, then sin/cos/tan/sin_cos", &groups, 2, &hist_judge, (14u64 << 55) + (1u64 << 53));
    }
}
