//! C18 — hyperbolic functions: accuracy for both signs, exact points, domain.
use crate::api::st;
use crate::fx::{bfx, dense_exps, grid, is_invalid, judge_tol, words};
use crate::grid::{dedup, with_los};
use crate::run::{api, Local, Runner, Verdict};
use crate::util::{next_down, next_up, show_dd};
use serde_json::json;
use tfref::bf::{Bf, Iv};
use tfref::big::dd_valid_fast;
use tfref::oracle::plus_pow2;
use tfref::rf;

pub const CALLS: [&str; 6] = ["sinh", "cosh", "tanh", "asinh", "acosh", "atanh"];

pub fn judge(call: usize, x: [f64; 2], l: Option<&mut Local>) -> Verdict {
    let name = CALLS[call];
    let args = words(x);
    if !dd_valid_fast(x[0], x[1]) {
        return Verdict::Skip;
    }
    let t = st::mk(x);
    let r = match api(|| match call {
        0 => t.sinh(),
        1 => t.cosh(),
        2 => t.tanh(),
        3 => t.asinh(),
        4 => t.acosh(),
        _ => t.atanh(),
    }) {
        Ok(r) => [r.hi(), r.lo()],
        Err(m) => return Verdict::fail("no_panic", name, &args, format!("panic: {}", m), "a value for every valid argument".into(), "panic"),
    };
    let v = bfx(x);
    let one = Bf::from_i64(1);
    let zero_ok = r[0] == 0.0 && r[1] == 0.0;
    match call {
        0 | 2 => {
            if v.is_zero() {
                return if zero_ok { Verdict::Pass } else { Verdict::fail("f(0)=0", name, &args, show_dd(r), "0".into(), "wrong_value") };
            }
            if !v.abs().le(&Bf::from_i64(600)) {
                return Verdict::Skip;
            }
            judge_tol(if call == 0 { "sinh: 2^-100 |f| + 2^-101" } else { "tanh: 2^-100 |f| + 2^-101" }, name, &args, r, |p| {
                let e = if call == 0 { rf::sinh_pt(&v, p) } else { rf::tanh_pt(&v, p) };
                let tol = plus_pow2(&e.abs().mul_pow2(-100), -101, p);
                Some((e, tol))
            }, l)
        }
        1 => {
            if v.is_zero() {
                return if r[0] == 1.0 && r[1] == 0.0 { Verdict::Pass } else { Verdict::fail("cosh(0)=1", name, &args, show_dd(r), "1".into(), "wrong_value") };
            }
            if !v.abs().le(&Bf::from_i64(600)) {
                return Verdict::Skip;
            }
            judge_tol("cosh: 2^-100 rel", name, &args, r, |p| {
                let e = rf::cosh_pt(&v, p);
                let tol = e.abs().mul_pow2(-100);
                Some((e, tol))
            }, l)
        }
        3 => {
            if v.is_zero() {
                return if zero_ok { Verdict::Pass } else { Verdict::fail("asinh(0)=0", name, &args, show_dd(r), "0".into(), "wrong_value") };
            }
            if !v.abs().le(&Bf::pow2(60)) {
                return Verdict::Skip;
            }
            judge_tol("asinh: 2^-100 |f| + 2^-98", name, &args, r, |p| {
                let e = rf::asinh_pt(&v, p);
                let tol = plus_pow2(&e.abs().mul_pow2(-100), -98, p);
                Some((e, tol))
            }, l)
        }
        4 => {
            if v.lt(&one) {
                return if is_invalid(r) { Verdict::Pass } else { Verdict::fail("acosh(x<1) invalid", name, &args, show_dd(r), "an invalid value".into(), "valid_for_domain_error") };
            }
            if x[0] == 1.0 && x[1] == 0.0 {
                return if zero_ok { Verdict::Pass } else { Verdict::fail("acosh(1)=0", name, &args, show_dd(r), "0".into(), "wrong_value") };
            }
            if !v.le(&Bf::pow2(60)) {
                return Verdict::Skip;
            }
            judge_tol("acosh: 2^-100 (A + 1/A)", name, &args, r, |p| {
                let e = rf::acosh_pt(&v, p);
                let a = e.abs();
                let tol = a.add(&Iv::from_i64(1).div(&a, p), p).mul_pow2(-100);
                Some((e, tol))
            }, l)
        }
        _ => {
            if !v.abs().lt(&one) {
                return if is_invalid(r) { Verdict::Pass } else { Verdict::fail("atanh(|x|>=1) invalid", name, &args, show_dd(r), "an invalid value".into(), "valid_for_domain_error") };
            }
            if v.is_zero() {
                return if zero_ok { Verdict::Pass } else { Verdict::fail("atanh(0)=0", name, &args, show_dd(r), "0".into(), "wrong_value") };
            }
            if !v.abs().le(&one.sub_exact(&Bf::pow2(-10))) {
                return Verdict::Skip;
            }
            judge_tol("atanh: 2^-100 |f| + 2^-101", name, &args, r, |p| {
                let e = rf::atanh_pt(&v, p);
                let tol = plus_pow2(&e.abs().mul_pow2(-100), -101, p);
                Some((e, tol))
            }, l)
        }
    }
}

pub fn hist_judge(c: &crate::hist::HCall, l: Option<&mut Local>) -> Verdict {
    use crate::api::Op;
    let k = match c.as_op() {
        Some(Op::sinh) => 0,
        Some(Op::cosh) => 1,
        Some(Op::tanh) => 2,
        Some(Op::asinh) => 3,
        Some(Op::acosh) => 4,
        Some(Op::atanh) => 5,
        _ => return Verdict::Skip,
    };
    judge(k, c.a, l)
}

pub fn replay(call: &str, _clause: &str, args: &[u64]) -> Verdict {
    if call == "hist" {
        return crate::hist::replay(args, &hist_judge);
    }
    let ci = CALLS.iter().position(|c| *c == call).expect("unknown call");
    judge(ci, [f64::from_bits(args[0]), f64::from_bits(args[1])], None)
}

pub fn run(r: &mut Runner) {
    let quick = r.quick();
    let rec = r.recorder();
    // a common argument set: all exponents (panic clause), dense from 2^-70 to 2^60
    let mut exps = dense_exps(-1074, 60, quick);
    exps.extend(if quick { vec![100, 500, 1000, 1023] } else { (61..=1023).step_by(7).collect() });
    let mut xs = grid(&exps, quick, 101);
    // the whole range |x| <= 600 in steps of 1/4 (every exp table stratum), quarter ties included
    let stepk = if quick { 7 } else { 1 };
    for k in (-2400..=2400).step_by(stepk) {
        let h = k as f64 * 0.25;
        if h == 0.0 {
            continue;
        }
        let e = crate::grid::exp_of(h);
        xs.push([h, 0.0]);
        for s in [1.0, -1.0] {
            let lo = s * 2f64.powi(e - 54) * 1.234;
            if dd_valid_fast(h, lo) {
                xs.push([h, lo]);
            }
        }
    }
    for j in 1..=60 {
        // acosh near 1, atanh near +-1
        xs.extend(with_los(1.0 + 2f64.powi(-j.min(52)), &[0, 20], &[0, (1u64 << 52) - 1], &[]));
        if dd_valid_fast(1.0, 2f64.powi(-53 - j)) {
            xs.push([1.0, 2f64.powi(-53 - j)]);
        }
        for s in [1.0, -1.0] {
            xs.extend(with_los(s * (1.0 - 2f64.powi(-j.min(53))), &[0, 20], &[0], &[]));
        }
    }
    for h in [0.0, -0.0, 1.0, -1.0, 600.0, -600.0, next_up(600.0), next_down(600.0), 1.0 - 2f64.powi(-10), -(1.0 - 2f64.powi(-10)), next_up(1.0 - 2f64.powi(-10)), 2f64.powi(60), -2f64.powi(60), 0.5, 0.999, 1e300, -1e300, 710.0, -745.0, 5e-324] {
        xs.extend(with_los(h, &[0, 1, 30], &[0, (1u64 << 52) - 1], &[]));
    }
    // linear ladders over the O(1) range, and pre-images of the strata of the inner exp / ln:
    // asinh, acosh, atanh end in ln, which iterates on exp with quarter-integer reduction points
    xs.extend(crate::fx::linear_ladder(1, 512, 128.0, true));
    for k in (1..=170i64).step_by(if quick { 3 } else { 1 }) {
        let q = k as f64 * 0.25;
        for d in [0.0, 1.0, -1.0, 1.0 / 16.0, -1.0 / 16.0] {
            let t = tfref::bf::Bf::from_f64(q).add_exact(&tfref::bf::Bf::from_f64(d * 2f64.powi(-55) * q));
            for w in [crate::fx::dd_of(&rf::sinh_pt(&t, 256)), crate::fx::dd_of(&rf::cosh_pt(&t, 256)), crate::fx::dd_of(&rf::tanh_pt(&t, 256))].into_iter().flatten() {
                xs.push(w);
                xs.push([-w[0], -w[1]]);
            }
        }
    }
    xs.push([1.0, -2f64.powi(-60)]);
    xs.push([-1.0, 2f64.powi(-60)]);
    dedup(&mut xs);
    xs.retain(|w| dd_valid_fast(w[0], w[1]));
    let n = xs.len();
    r.notes.push(format!("{} arguments for each of the 6 functions: every exponent from 2^-70 up to the range limits with both signs (plus a sparse ladder over the whole f64 range for the no-panic clause), all multiples of 1/4 up to +-600 with low words of both signs, acosh at 1 + 2^-j and (1, 2^-j), atanh at +-(1 - 2^-j), range limits and domain errors", n));
    r.add_sample(json!({"x": show_dd(xs[n / 2]), "calls": CALLS}));
    r.par("sinh, cosh, tanh, asinh, acosh, atanh", n.div_ceil(64), n as u64, |c, l| {
        for i in (c * 64)..((c + 1) * 64).min(n) {
            for call in 0..6 {
                let v = judge(call, xs[i], Some(l));
                if let Verdict::Pass = v {
                    l.count(CALLS[call], 1);
                }
                rec.record(l, (i * 6 + call) as u64, v);
            }
        }
    });
    {
        let org = crate::organic::states(if quick { 1 } else { 2 });
        let no = org.len();
        r.notes.push(format!("organic operands: {} chain states (depth {} from the C01 seeds)", no, if quick { 1 } else { 2 }));
        r.par("organic operands (chain results)", no.div_ceil(64), no as u64, |c, l| {
            for i in (c * 64)..((c + 1) * 64).min(no) {
                for call in 0..6 {
                    let v = judge(call, org[i], Some(l));
                    rec.record(l, (1u64 << 60) + (i * 6 + call) as u64, v);
                }
            }
        });
    }
    {
        let gs = crate::fx::generic_stream(if quick { 15000 } else { 1500000 }, 118, -40, 9);
        let ngs = gs.len();
        r.notes.push(format!("generic stream for hyperbolic functions: {} operands of a fixed Weyl sequence (full-size mantissas in both words, exponents -40..9)", ngs));
        r.par("generic stream: hyperbolic functions", ngs.div_ceil(64), ngs as u64, |c, l| {
            for i in (c * 64)..((c + 1) * 64).min(ngs) {
                for call in 0..6 {
                    let x = if call == 4 { [gs[i][0].abs() + 1.0, 0.0] } else { gs[i] };
                    let v = judge(call, x, Some(l));
                    rec.record(l, (1u64 << 58) + (i * 6 + call) as u64, v);
                }
            }
        });
    }
    {
        let gs = crate::fx::generic_stream(if quick { 8000 } else { 800000 }, 1180, 1, 59);
        let ngs = gs.len();
        r.notes.push(format!("generic stream for asinh/acosh (large arguments): {} operands of a fixed Weyl sequence (full-size mantissas in both words, exponents 1..59)", ngs));
        r.par("generic stream: asinh/acosh (large arguments)", ngs.div_ceil(64), ngs as u64, |c, l| {
            for i in (c * 64)..((c + 1) * 64).min(ngs) {
                for call in [3usize, 4] {
                    let x = if call == 4 { [gs[i][0].abs(), if gs[i][0] < 0.0 { -gs[i][1] } else { gs[i][1] }] } else { gs[i] };
                    let v = judge(call, x, Some(l));
                    rec.record(l, (1u64 << 57) + (i * 6 + call) as u64, v);
                }
            }
        });
    }
    {
        // double-double neighbourhoods (0..16 ulps and a geometric tail; thorough: 0..80 and tail) of nice values and of
        // their images under every elementary function: pre-images of nice results, where a result may be snapped
        let mut nb = crate::fx::nice_neighbourhoods(quick);
        // every exponent of the stated range with a thin set of fractions and low words, both signs (a rescaling step,
        // an exponent-indexed table or a branch on the exponent field may treat one binade differently)
        if quick {
            let all: Vec<i32> = (-1000..=59).collect();
            for w in crate::fx::grid_thin(&all, 1, 418) {
                nb.push(w);
                nb.push([-w[0], -w[1]]);
            }
        }
        // both sides of the end points of the stated ranges and of the documented internal thresholds
        nb.extend(crate::fx::edge_points(&[600.0, 1.0 - 2f64.powi(-10), 2f64.powi(60), 1.0], quick));
        let nn = nb.len();
        r.notes.push(format!("neighbourhoods of nice pre-images: {} operands ({} base points = integers, simple fractions, multiples of pi, e, ln 2, ln 10, sqrt 2, sqrt 3 and their images under every elementary function; offsets in double-double ulps on both sides)", nn, crate::fx::nice_bases().len()));
        r.par("neighbourhoods of nice pre-images", nn.div_ceil(64), nn as u64, |c, l| {
            for i in (c * 64)..((c + 1) * 64).min(nn) {
                for call in 0..6 {
                    let v = judge(call, nb[i], Some(l));
                    rec.record(l, (1u64 << 56) + (i * 6 + call) as u64, v);
                }
            }
        });
    }
    {
        // sinh, cosh, tanh are built on exp: its table-stratified alphabet (every entry of the 1/128, exp(1/2)^n and
        // exp(16)^n tables, the ties of both index roundings with low words of either sign) belongs here too
        let xs: Vec<[f64; 2]> = crate::props::c14::exp_alphabet(quick).into_iter().filter(|w| w[0].abs() <= 600.0).step_by(if quick { 3 } else { 1 }).collect();
        let n = xs.len();
        r.notes.push(format!("exp-table strata (the C14 alphabet restricted to |x| <= 600{}): {} arguments for sinh, cosh, tanh", if quick { ", every third" } else { "" }, n));
        r.par("exp-table strata: sinh, cosh, tanh", n.div_ceil(64), n as u64, |c, l| {
            for i in (c * 64)..((c + 1) * 64).min(n) {
                for call in 0..3 {
                    let v = judge(call, xs[i], Some(l));
                    rec.record(l, (13u64 << 55) + (i * 4 + call) as u64, v);
                }
            }
        });
    }
    {
        use crate::api::Op;
        let mut groups = crate::hist::unary_groups(&[Op::sinh, Op::cosh], &[[1.25, 1e-17], [-3.5, 2e-16], [0.01, 0.0], [50.25, -1e-15]], [2.0, 0.0]);
        groups.extend(crate::hist::unary_groups(&[Op::tanh, Op::asinh], &[[0.75, 1e-17], [-20.0, 0.0]], [2.0, 0.0]));
        groups.extend(crate::hist::unary_groups(&[Op::acosh, Op::atanh], &[[1.5, 1e-17], [0.5, -1e-18]], [0.25, 0.0]));
        crate::hist::explore(r, "histories: hyperbolic functions", &groups, 3, &hist_judge, 14u64 << 55);
        // cross-family histories: the same judged calls, preceded by every other public function on the same operands
        crate::hist::explore_mixed(r, "cross-family histories: any public call, then hyperbolic functions", &groups, 2, &hist_judge, (14u64 << 55) + (1u64 << 53));
    }
}
