pub mod c07;
