pub mod c01;
pub mod c02;
pub mod c03;
pub mod c04;
pub mod c05;
pub mod c06;
pub mod c07;
pub mod c08;
pub mod c09;
pub mod c10;
#[cfg(feature = "nostd_cfg")]
pub mod c11;
pub mod c12;
pub mod c13;
pub mod c14;
pub mod c15;
pub mod c16;
pub mod c17;
pub mod c18;
pub mod c19;
pub mod c20;

use crate::run::{Runner, Verdict};

pub struct Entry {
    pub run: fn(&mut Runner),
    pub replay: fn(&str, &str, &[u64]) -> Verdict,
    pub rule: &'static str,
    pub assumptions: &'static [&'static str],
}

const BASE_ASSUME: &[&str] = &[
    "rustc/LLVM and IEEE-754 round-to-nearest hardware arithmetic",
    "the exact long accumulator of tfref::big (cross-validated against Python fractions at setup)",
    "TwoFloat is #[repr(C)] {hi,lo}: operands are built from raw words by transmute",
];

const FN_ASSUME: &[&str] = &[
    "rustc/LLVM and IEEE-754 round-to-nearest hardware arithmetic",
    "the interval big-float reference functions of tfref::rf (outward-rounded enclosures, cross-validated against mpmath at 1400+ bits by setup_cmd); a VIOLATION is only reported when the result is outside the tolerance for every value in the enclosure",
    "TwoFloat is #[repr(C)] {hi,lo}: operands are built from raw words by transmute",
];

pub fn registry(id: &str) -> Option<Entry> {
    Some(match id {
        "C01" => Entry { run: c01::run, replay: c01::replay, rule: "state = a TwoFloat value (128 bits, NaN canonicalised); initial states = alphabets (depth 1) and seeds (chains); transition = one public API call on the real crate; invariant on every produced value: valid (hi == RN(hi+lo), both finite) or non-finite high word; breadth-first with exact-state deduplication", assumptions: BASE_ASSUME },
        "C02" => Entry { run: c02::run, replay: c02::replay, rule: "state = ordered pair of f64 bit patterns from the stated alphabet; transition = one constructor call on the real crate judged exactly (long accumulator) against the error-free-transformation specification; distinct by operand bits", assumptions: BASE_ASSUME },
        "C03" => Entry { run: c03::run, replay: c03::replay, rule: "state = ordered operand pair (unit alphabets scaled to every (e0, e0+delta)) or an item sequence for sum; transition = one +,-,+=,-= or sum call on the real crate; judged by exact comparison |r-(a±b)| * 2^159 <= (k*2^53+c)|a±b|", assumptions: BASE_ASSUME },
        "C04" => Entry { run: c04::run, replay: c04::replay, rule: "state = ordered operand pair; transition = one *, *= call in each operand typing; judged by exact comparison |r-ab| 2^106 <= k|ab| and the exactness clauses (zero, +-1, 2^j)", assumptions: BASE_ASSUME },
        "C05" => Entry { run: c05::run, replay: c05::replay, rule: "state = ordered operand pair; transition = one /, /= or recip call; judged by the multiplied-out exact comparison |r*b-a| <= eps|a| and the exactness clauses (x/x, +-1, 2^j, zero numerator)", assumptions: BASE_ASSUME },
        "C06" => Entry { run: c06::run, replay: c06::replay, rule: "state = ordered pair from (valid alphabet with lo-neighbours) U (reachable invalid representatives), or (valid, f64), or one valid value; transition = the full set of comparison / min / max / copysign / sign observations on it; judged against exact comparison of hi+lo", assumptions: BASE_ASSUME },
        "C07" => Entry { run: c07::run, replay: c07::replay, rule: "every (a,b) pair of the stated alphabets is one state; each is judged through no_overlap, is_valid, both TryFrom impls and both round trips against RN(a+b)==a; a pair is distinct by its 128 bits", assumptions: BASE_ASSUME },
        "C08" => Entry { run: c08::run, replay: c08::replay, rule: "state = one valid operand; transition = floor/ceil/trunc/round/fract (inherent and num_traits::Float); judged against exact integer arithmetic on hi+lo", assumptions: BASE_ASSUME },
        "C09" => Entry { run: c09::run, replay: c09::replay, rule: "state = one integer value of one of the ten types, one TwoFloat, or one f32; transition = every conversion route (From / TryFrom by value and by reference / ToPrimitive / NumCast / FromPrimitive); judged against exact integer arithmetic", assumptions: BASE_ASSUME },
        "C10" => Entry { run: c10::run, replay: c10::replay, rule: "state = ordered operand pair (valid and reachable non-finite) or a single operand; transition = every spelling of the operation (value/reference/assignment, operand typings, trait vs inherent); oracle = the other spelling, bit-identical words (NaN == NaN; algebraic identities modulo the sign of zero words)", assumptions: BASE_ASSUME },
        #[cfg(feature = "nostd_cfg")]
        "C11" => Entry { run: c11::run, replay: c11::replay, rule: "state = operand tuple; transition = the same public API call executed in both build configurations linked into one binary (crate twofloat with default features / the same sources compiled as tf_nostd with --no-default-features --features math_funcs); oracle = the other configuration, bit-identical words (NaN == NaN), plus exactness of new_mul's low word in both", assumptions: &["rustc/LLVM, IEEE-754 hardware", "compiling /repo/src/lib.rs a second time under another crate name with features {math_funcs} is the no_std configuration (same cfg evaluation as --no-default-features --features math_funcs)", "the libm crate flavour in use is stated in coverage.notes"] },
        "C12" => Entry { run: c12::run, replay: c12::replay, rule: "the complete finite set of 19 constants, 19 FloatConst accessors and 6 associated constants, each compared with the correctly rounded double-double of a 640-bit interval enclosure of the mathematical constant (resp. with the value derived from the exact validity predicate); plus one state per operand for the two angle conversions, judged against an interval enclosure of x*180/pi", assumptions: FN_ASSUME },
        "C13" => Entry { run: c13::run, replay: c13::replay, rule: "state = operand (pair) or (base, exponent); transition = sqrt / cbrt / hypot / powi and the Pow impls; roots judged by exact squaring/cubing inequalities in arbitrary-precision integers, powers against an interval enclosure of x^n by binary powering; exact-point, sign, identity and no-panic clauses checked literally", assumptions: FN_ASSUME },
        "C14" => Entry { run: c14::run, replay: c14::replay, rule: "state = argument (pair); transition = exp / exp2 / exp_m1 / powf on the real crate; judged against interval enclosures of e^x, 2^x, e^x-1, exp(y ln x) with the stated relative tolerances (three-valued decision with precision escalation), plus the exact-point, threshold, sign and no-panic clauses literally", assumptions: FN_ASSUME },
        "C15" => Entry { run: c15::run, replay: c15::replay, rule: "state = argument (pair); transition = ln / log2 / log10 / ln_1p / log; judged against interval enclosures of the logarithms (exact differences near 1) with the stated mixed tolerances, the bit-identity clauses against the other spelling, exact points and domain errors literally", assumptions: FN_ASSUME },
        "C16" => Entry { run: c16::run, replay: c16::replay, rule: "state = argument; transition = sin, cos, sin_cos, tan on the real crate; judged against interval enclosures computed with a 600+ bit reduction by pi/2", assumptions: FN_ASSUME },
        "C17" => Entry { run: c17::run, replay: c17::replay, rule: "state = argument (pair); transition = asin / acos / atan / atan2; judged against interval enclosures (atan by a verified Newton step on tan, asin/acos through atan2(x, sqrt((1-x)(1+x))) with exact 1 -+ x), axis cases bit-identical to the constants", assumptions: FN_ASSUME },
        "C18" => Entry { run: c18::run, replay: c18::replay, rule: "state = argument; transition = sinh / cosh / tanh / asinh / acosh / atanh; judged against cancellation-free interval enclosures with the stated mixed tolerances; exact points, domain errors and no-panic literally", assumptions: FN_ASSUME },
        "C19" => Entry { run: c19::run, replay: c19::replay, rule: "state = ordered operand pair; transition = one of the five spellings of %, div_euclid, rem_euclid; judged against the exact truncated / floored integer quotient (binary long division in the long accumulator) with the stated tolerance and near-integer proviso", assumptions: BASE_ASSUME },
        "C20" => Entry { run: c20::run, replay: c20::replay, rule: "text: state = one valid value, transitions = 54 format calls (3 traits x {plain,+} x 9 precisions) compared with std's f64 renderings and parsed back; serde: state = one environment script (sequence or map the data format offers the visitor, built with serde::de::value deserializers) or one valid value serialised through a recording Serializer; oracle = 20-line acceptance predicate using the exact validity test", assumptions: &["rustc/LLVM, IEEE-754 hardware", "std's f64 formatting and parsing are correct (used as the text oracle)", "serde::de::value::{SeqDeserializer, MapDeserializer} behave as a faithful data format", "tfref::big exact validity predicate"] },
        _ => return None,
    })
}
