//! C08 — floor, ceil, trunc, round, fract are exact.
use crate::api::st;
use crate::grid::{dd_grid, dedup, with_los};
use crate::run::{api, Runner, Verdict};
use crate::util::{next_down, next_up, show_dd};
use serde_json::json;
use tfref::alpha::{gen_fracs, run_bounded, weyl_fracs};
use tfref::big::{dd_valid, Dy};

pub const CALLS: [&str; 5] = ["floor", "ceil", "trunc", "round", "fract"];
pub const TRAIT_CALLS: [&str; 5] = ["Float::floor", "Float::ceil", "Float::trunc", "Float::round", "Float::fract"];

pub fn judge(call: usize, x: [f64; 2]) -> Verdict {
    let name = CALLS[call];
    let args = [x[0].to_bits(), x[1].to_bits()];
    if !dd_valid(x[0], x[1]) {
        return Verdict::Skip;
    }
    let t = st::mk(x);
    let res = api(|| match call {
        0 => (t.floor(), <st::TF as num_traits::Float>::floor(t)),
        1 => (t.ceil(), <st::TF as num_traits::Float>::ceil(t)),
        2 => (t.trunc(), <st::TF as num_traits::Float>::trunc(t)),
        3 => (t.round(), <st::TF as num_traits::Float>::round(t)),
        _ => (t.fract(), <st::TF as num_traits::Float>::fract(t)),
    });
    let (r, rt) = match res {
        Ok((a, b)) => ([a.hi(), a.lo()], [b.hi(), b.lo()]),
        Err(m) => return Verdict::fail("no_panic", name, &args, format!("panic: {}", m), "a value".into(), "panic"),
    };
    let v = Dy::from_dd(x[0], x[1]);
    let want = match call {
        0 => v.floor(),
        1 => v.ceil(),
        2 => v.trunc(),
        3 => v.round_half_away(),
        _ => v.fract(),
    };
    // the inherent method, and the num_traits::Float spelling whenever it returns different words: each must be a
    // valid TwoFloat with the exact value (bit-identity of the spellings is C10's claim, not this property's)
    let mut cands: Vec<(&'static str, [f64; 2])> = vec![(name, r)];
    if r[0].to_bits() != rt[0].to_bits() || r[1].to_bits() != rt[1].to_bits() {
        cands.push((TRAIT_CALLS[call], rt));
    }
    for (nm, r) in cands {
        if !r[0].is_finite() || !r[1].is_finite() || !dd_valid(r[0], r[1]) {
            return Verdict::fail("valid", nm, &args, show_dd(r), format!("a valid TwoFloat with value {:?}", want.to_dd_rn()), "invalid_result");
        }
        if !Dy::from_dd(r[0], r[1]).eq(&want) {
            return Verdict::fail("exact_value", nm, &args, show_dd(r), format!("exact value {:?} = {}", want.to_dd_rn().map(show_dd_t), want.to_hex()), "wrong_value");
        }
    }
    Verdict::Pass
}

fn show_dd_t(t: (f64, f64)) -> String {
    show_dd([t.0, t.1])
}

pub fn hist_judge(c: &crate::hist::HCall, _l: Option<&mut crate::run::Local>) -> Verdict {
    use crate::api::Op;
    let k = match c.as_op() {
        Some(Op::floor) => 0,
        Some(Op::ceil) => 1,
        Some(Op::trunc) => 2,
        Some(Op::round) => 3,
        Some(Op::fract) => 4,
        _ => return Verdict::Skip,
    };
    judge(k, c.a)
}

pub fn replay(call: &str, _clause: &str, args: &[u64]) -> Verdict {
    if call == "hist" {
        return crate::hist::replay(args, &hist_judge);
    }
    let ci = CALLS.iter().position(|c| *c == call).or_else(|| TRAIT_CALLS.iter().position(|c| *c == call)).expect("unknown call");
    judge(ci, [f64::from_bits(args[0]), f64::from_bits(args[1])])
}

pub fn alphabet(quick: bool) -> Vec<[f64; 2]> {
    let half = 0.5f64;
    let mut abs_los: Vec<f64> = vec![0.25, half, next_down(half), next_up(half), 0.75, next_down(1.0), 1.0, next_up(1.0), 1.5, next_down(1.5), next_up(1.5), 2.0, 2.5, 3.0, 3.5, 4.0, 1024.0, 1024.5, 1e-300, 5e-324, 2f64.powi(-1022)];
    for j in [2, 3, 10, 30, 52, 53, 54, 60, 100] {
        abs_los.push(2f64.powi(-j));
        abs_los.push(0.5 - 2f64.powi(-j));
        abs_los.push(0.5 + 2f64.powi(-j.min(52)));
        abs_los.push(1.0 - 2f64.powi(-j.min(53)));
        abs_los.push(7.0 + 2f64.powi(-j.min(50)));
    }
    let mut hf = run_bounded(52, 2);
    hf.extend(gen_fracs(4));
    hf.extend(weyl_fracs(4, 11));
    let mut exps: Vec<i32> = (-62..=202).collect();
    for e in [-1022, -1000, -500, -100, 300, 500, 970, 1000, 1023] {
        exps.push(e);
    }
    if quick {
        exps = exps.into_iter().filter(|e| (-3..=60).contains(e) || e % 4 == 0 || (100..=110).contains(e)).collect();
    }
    let gaps: Vec<i32> = vec![0, 1, 2, 3, 10, 30, 52, 53];
    let mut lf = run_bounded(52, 1);
    lf.push(1u64 << 51);
    lf.extend(gen_fracs(1));
    let mut v = dd_grid(&exps, &hf, &gaps, &lf, &abs_los);
    // small integers / half-integers / quarter values as high words
    for n in 0..=(if quick { 64 } else { 1024 }) {
        for q in [0.0, 0.25, 0.5, 0.75] {
            for s in [1.0f64, -1.0] {
                let hi = s * (n as f64 + q);
                v.extend(with_los(hi, &gaps, &lf, &abs_los));
            }
        }
    }
    // n + f split exactly: n = 2^k + m, f from the fraction list
    let fr: Vec<Dy> = {
        let mut f = vec![Dy::zero()];
        for j in [1, 2, 3, 10, 52, 53, 54, 60, 100, 105] {
            f.push(Dy::pow2(-j));
            f.push(Dy::pow2(-1).sub(&Dy::pow2(-j)));
            f.push(Dy::pow2(-1).add(&Dy::pow2(-j)));
            f.push(Dy::from_i64(1).sub(&Dy::pow2(-j)));
        }
        f.push(Dy::pow2(-1));
        f
    };
    for k in (0..=200).step_by(if quick { 3 } else { 1 }) {
        for m in [0i64, 1, -1, 2, 3] {
            let n = Dy::pow2(k).add(&Dy::from_i64(m));
            for f in &fr {
                for s in [false, true] {
                    for fs in [false, true] {
                        let mut val = if fs { n.sub(f) } else { n.add(f) };
                        if s {
                            val = val.neg();
                        }
                        if let Some((hi, lo)) = val.to_dd_rn() {
                            if Dy::from_dd(hi, lo).eq(&val) {
                                v.push([hi, lo]);
                            }
                        }
                    }
                }
            }
        }
    }
    v.push([0.0, 0.0]);
    v.push([-0.0, 0.0]);
    v.push([-0.0, -0.0]);
    v.push([f64::MAX, 2f64.powi(969)]);
    dedup(&mut v);
    v
}

pub fn run(r: &mut Runner) {
    let quick = r.quick();
    let v = alphabet(quick);
    let n = v.len();
    r.notes.push(format!("{} valid operands: high words over exponents -62..202 (+ range ends) x (R_2(52)+constants+Weyl) and all n+q (n<=1024, q in 0,1/4,1/2,3/4), each with zero / relative-gap / absolute low words (1/4, 1/2, pred/succ(1/2), 3/4, 1, 1.5, ..., 2^-j, 1/2+-2^-j, 1-2^-j, tiny); plus exact splits of +-(2^k+m) +- f", n));
    r.add_sample(json!({"x": show_dd(v[n / 2]), "calls": CALLS}));
    r.add_sample(json!({"x": show_dd(v[n / 5])}));
    let rec = r.recorder();
    let chunk = 2048;
    r.par("floor/ceil/trunc/round/fract", n.div_ceil(chunk), n as u64, |c, l| {
        for i in (c * chunk)..((c + 1) * chunk).min(n) {
            for call in 0..5 {
                let vd = judge(call, v[i]);
                rec.record(l, (i * 5 + call) as u64, vd);
            }
        }
    });
    {
        let org = crate::organic::states(if quick { 1 } else { 2 });
        let no = org.len();
        r.notes.push(format!("organic operands: {} chain states (depth {} from the C01 seeds)", no, if quick { 1 } else { 2 }));
        r.par("organic operands (chain results)", no.div_ceil(512), no as u64, |c, l| {
            for i in (c * 512)..((c + 1) * 512).min(no) {
                for call in 0..5 {
                    rec.record(l, (1u64 << 60) + (i * 5 + call) as u64, judge(call, org[i]));
                }
            }
        });
    }
    {
        let gs = crate::fx::generic_stream(if quick { 400000 } else { 40000000 }, 108, -60, 200);
        let ngs = gs.len();
        r.notes.push(format!("generic stream for floor/ceil/trunc/round/fract: {} operands of a fixed Weyl sequence (full-size mantissas in both words, exponents -60..200)", ngs));
        r.par("generic stream: floor/ceil/trunc/round/fract", ngs.div_ceil(4096), ngs as u64, |c, l| {
            for i in (c * 4096)..((c + 1) * 4096).min(ngs) {
                for call in 0..5 {
                    rec.record(l, (1u64 << 58) + (i * 5 + call) as u64, judge(call, gs[i]));
                }
            }
        });
    }
    {
        use crate::api::Op;
        let bases: Vec<[f64; 2]> = vec![[2.5, -1e-17], [-0.5, 1e-18], [2f64.powi(60), 0.5], [7.0, 1e-16], [0.49999999999999994, 1e-18]];
        let groups = crate::hist::unary_groups(&[Op::floor, Op::round, Op::fract], &bases, [3.25, 0.0]);
        crate::hist::explore(r, "histories: floor/ceil/trunc/round/fract", &groups, 3, &hist_judge, 14u64 << 55);
        // cross-family histories: the same judged calls, preceded by every other public function on the same operands
        crate::hist::explore_mixed(r, "cross-family histories: any public call, then floor/ceil/trunc/round/fract", &groups, 2, &hist_judge, (14u64 << 55) + (1u64 << 53));
    }
}
