//! C05 — division and reciprocal.
use crate::api::st;
use crate::pairs::PairPlan;
use crate::props::c03::unit_alphabet;
use crate::run::{api, Local, Runner, Verdict};
use crate::util::show_dd;
use serde_json::json;
use tfref::alpha::{f64_scale, gen_fracs, run_bounded, run_bounded_at, weyl_fracs};
use tfref::big::Dy;

pub const CALLS: [&str; 7] = ["div", "div_assign", "div_f", "div_assign_f", "f_div", "recip", "div_self"];

fn in_range(hi: f64) -> bool {
    hi.is_finite() && hi.abs() >= 2f64.powi(-450) && hi.abs() <= 2f64.powi(450)
}
fn is_pow2(x: f64) -> bool {
    x != 0.0 && x.is_finite() && (x.to_bits() & ((1u64 << 52) - 1)) == 0 && ((x.to_bits() >> 52) & 0x7ff) != 0
}

/// call 0,1: a / b (TwoFloat/TwoFloat); 2,3: a / b[0]; 4: a[0] / b (f64 / TwoFloat); 5: recip(b)
pub fn judge(call: usize, a: [f64; 2], b: [f64; 2], l: Option<&mut Local>) -> Verdict {
    let name = CALLS[call];
    let args = [a[0].to_bits(), a[1].to_bits(), b[0].to_bits(), b[1].to_bits()];
    let num_ok = match call {
        5 => true,
        _ => a[0] == 0.0 || in_range(a[0]),
    };
    if !num_ok || !in_range(b[0]) {
        return Verdict::Skip;
    }
    // 6: `&x / &x` with BOTH operands the same object (aliased references); judged as div of (a, a)
    let aliased = call == 6;
    if aliased && (a[0].to_bits() != b[0].to_bits() || a[1].to_bits() != b[1].to_bits()) {
        return Verdict::Skip;
    }
    let res = api(|| match call {
        6 => {
            let x = st::mk(a);
            &x / &x
        }
        0 => st::mk(a) / st::mk(b),
        1 => {
            let mut t = st::mk(a);
            t /= st::mk(b);
            t
        }
        2 => st::mk(a) / b[0],
        3 => {
            let mut t = st::mk(a);
            t /= b[0];
            t
        }
        4 => a[0] / st::mk(b),
        _ => st::mk(b).recip(),
    });
    let call = if aliased { 0 } else { call };
    let r = match res {
        Ok(t) => [t.hi(), t.lo()],
        Err(m) => return Verdict::fail("no_panic", name, &args, format!("panic: {}", m), "a value".into(), "panic"),
    };
    let (dn, dd) = match call {
        0 | 1 => (Dy::from_dd(a[0], a[1]), Dy::from_dd(b[0], b[1])),
        2 | 3 => (Dy::from_dd(a[0], a[1]), Dy::from_f64(b[0])),
        4 => (Dy::from_f64(a[0]), Dy::from_dd(b[0], b[1])),
        _ => (Dy::from_i64(1), Dy::from_dd(b[0], b[1])),
    };
    if !r[0].is_finite() || !r[1].is_finite() {
        return Verdict::fail("bound", name, &args, show_dd(r), "finite quotient".into(), "nonfinite");
    }
    let dr = Dy::from_dd(r[0], r[1]);
    // multiplied out: |r*d - n| <= eps |n|
    let e = dr.mul(&dd).sub(&dn);
    if dn.is_zero() {
        if !dr.is_zero() {
            return Verdict::fail("zero_numerator", name, &args, show_dd(r), "zero".into(), "nonzero_for_zero_numerator");
        }
        return Verdict::Pass;
    }
    if dn.eq(&dd) {
        // x / x == 1 exactly
        if !(r[0] == 1.0 && r[1] == 0.0) {
            return Verdict::fail("self_division", name, &args, show_dd(r), "exactly 1".into(), "not_one");
        }
        return Verdict::Pass;
    }
    let den_f = (call == 2 || call == 3) || b[1] == 0.0;
    if den_f && (b[0] == 1.0 || b[0] == -1.0) && call != 5 {
        if !e.is_zero() {
            return Verdict::fail("div_pm1_exact", name, &args, show_dd(r), "exact".into(), "inexact");
        }
        return Verdict::Pass;
    }
    if den_f && is_pow2(b[0]) && call != 5 {
        let k = -(((b[0].to_bits() >> 52) & 0x7ff) as i32 - 1023);
        let (n0, n1) = if call == 4 { (a[0], 0.0) } else { (a[0], a[1]) };
        if f64_scale(n0, k).is_some() && f64_scale(n1, k).is_some() {
            if !e.is_zero() {
                return Verdict::fail("div_pow2_exact", name, &args, show_dd(r), "exact (scaled low word representable)".into(), "inexact");
            }
            return Verdict::Pass;
        }
    }
    let (k, s, clause) = if call == 2 || call == 3 { (3u64, -106, "tf/f64: 3u^2") } else { (1u64, -102, "x/tf, recip: 16u^2") };
    let (ok, ratio) = e.within(k, s, &dn);
    if let Some(l) = l {
        if ratio > 0.05 {
            l.worst(clause, ratio, || format!("{} {} {}", name, show_dd(a), show_dd(b)));
        }
    }
    if !ok {
        return Verdict::fail(clause, name, &args, show_dd(r), format!("|r*b - a| <= {}*2^{}*|a|; observed/allowed = {:.6}", k, s, ratio), "over_bound");
    }
    Verdict::Pass
}

pub fn hist_judge(c: &crate::hist::HCall, l: Option<&mut Local>) -> Verdict {
    use crate::api::Op;
    match c.as_op() {
        Some(Op::div) => judge(0, c.a, c.b, l),
        Some(Op::div_assign) => judge(1, c.a, c.b, l),
        Some(Op::div_f) => judge(2, c.a, c.b, l),
        Some(Op::div_assign_f) => judge(3, c.a, c.b, l),
        Some(Op::f_div) => judge(4, c.a, c.b, l),
        // recip(x): the judge takes its operand in the divisor slot
        Some(Op::recip) => judge(5, [1.0, 0.0], c.a, l),
        _ => Verdict::Skip,
    }
}

pub fn replay(call: &str, _clause: &str, args: &[u64]) -> Verdict {
    if call == "hist" {
        return crate::hist::replay(args, &hist_judge);
    }
    let ci = CALLS.iter().position(|c| *c == call).expect("unknown call");
    judge(ci, [f64::from_bits(args[0]), f64::from_bits(args[1])], [f64::from_bits(args[2]), f64::from_bits(args[3])], None)
}

pub fn plan(quick: bool) -> PairPlan {
    let pos: Vec<u32> = vec![1, 2, 26, 27, 50, 51];
    let mut hf: Vec<u64> = if quick { run_bounded_at(52, 2, &pos) } else { run_bounded(52, 2) };
    hf.extend(gen_fracs(if quick { 4 } else { 8 }));
    hf.extend(weyl_fracs(if quick { 16 } else { 40 }, 7));
    // mantissas slightly above a power of two (top bits zero, generic tail): products 1.0x * 1.0y
    hf.extend(weyl_fracs(if quick { 12 } else { 32 }, 9).into_iter().map(|f| f >> 6));
    let gaps: Vec<i32> = if quick { vec![0, 1, 2, 10, 52, 53, 54] } else { vec![0, 1, 2, 10, 30, 52, 53, 54, 200] };
    let mut lf: Vec<u64> = run_bounded(52, 1);
    lf.push(1);
    lf.push((1u64 << 52) - 2);
    lf.extend(gen_fracs(1));
    lf.extend(weyl_fracs(1, 8));
    let ua = unit_alphabet(&hf, &gaps, &lf, false);
    let ub = unit_alphabet(&hf, &gaps, &lf, true);
    // thorough: every 2nd / 3rd member (the full product would be ~1e11 exact checks)
    let (ua, ub): (Vec<[f64; 2]>, Vec<[f64; 2]>) = if quick { (ua, ub) } else { (ua.into_iter().step_by(2).collect(), ub.into_iter().step_by(3).collect()) };
    PairPlan {
        ua,
        ub,
        e0s: if quick { vec![-450, 0, 449] } else { vec![-450, -449, -1, 0, 1, 448, 449] },
        deltas: if quick { vec![0, -899, 899, 1, -37] } else { vec![0, 1, -1, -37, 53, -449, 449, 450, -450, -898, 898, -899, 899] },
        emin: -450,
        emax: 449,
        extra_a: vec![[0.0, 0.0], [-0.0, 0.0]],
        extra_b: vec![],
    }
}

pub fn run(r: &mut Runner) {
    let quick = r.quick();
    let p = plan(quick);
    r.notes.push(format!("unit alphabets |Ua|={} |Ub|={}; reference exponents {:?}; exponent offsets {:?}; high words in [2^-450, 2^450] (numerator may be 0)", p.ua.len(), p.ub.len(), p.e0s, p.deltas));
    r.add_sample(json!({"a": show_dd(p.ua[p.ua.len() / 3]), "b": show_dd(p.ub[p.ub.len() / 2]), "note": "unit alphabet members before scaling; the diagonal a == b (self-division) is part of the product"}));
    let rec = r.recorder();
    let next = p.run(r, "tf/tf", 0, |l, idx, a, b| {
        let v = judge(0, a, b, Some(l));
        let fail = v.is_fail();
        rec.record(l, idx * 2, v);
        let x = st::mk(a);
        let y = st::mk(b);
        let o = api(|| x / y);
        let t = api(|| {
            let mut t = x;
            t /= y;
            t
        });
        match (o, t) {
            (Ok(o), Ok(t)) if !fail && o.hi().to_bits() == t.hi().to_bits() && o.lo().to_bits() == t.lo().to_bits() => l.transitions += 1,
            _ => {
                let v = judge(1, a, b, Some(l));
                rec.record(l, idx * 2 + 1, v);
            }
        }
    });
    let next = p.run(r, "tf/f64, f64/tf", next * 2, |l, idx, a, b| {
        if b[1].to_bits() == 0 {
            for call in 2..4usize {
                let v = judge(call, a, b, Some(l));
                rec.record(l, idx * 4 + (call - 2) as u64, v);
            }
        }
        if a[1].to_bits() == 0 {
            let v = judge(4, a, b, Some(l));
            rec.record(l, idx * 4 + 2, v);
        }
    });
    // self-division, recip, +-1, 2^j, for a richer single-operand set
    let xs: Vec<[f64; 2]> = {
        let mut v = vec![];
        for e0 in [-450, -449, -200, -1, 0, 1, 17, 300, 448, 449] {
            for w in p.ub.iter().step_by(if quick { 3 } else { 1 }) {
                if let Some(s) = tfref::alpha::dd_scale(*w, e0) {
                    v.push(s);
                }
            }
        }
        // small integers as high words (h * fl(1/h) != 1 for e.g. 49): self-division must still be exact
        for n in 1..=if quick { 300 } else { 4096 } {
            v.push([n as f64, 0.0]);
            v.push([n as f64, (n as f64) * 2f64.powi(-60)]);
        }
        for e0 in [-450, 0, 449] {
            for lo in [5e-324, -5e-324, 2f64.powi(-1060), -2f64.powi(-1022)] {
                v.push([2f64.powi(e0) * 1.25, lo]);
            }
        }
        v
    };
    let nx = xs.len();
    let base = next * 4;
    r.par("x/x, recip, x/+-1", nx.div_ceil(64), nx as u64 * 4, |c, l| {
        for i in (c * 64)..((c + 1) * 64).min(nx) {
            let x = xs[i];
            let mut k = 0u64;
            let mut rc = |l: &mut Local, v: Verdict| {
                rec.record(l, base + (i as u64) * 16 + k, v);
                k += 1;
            };
            rc(l, judge(0, x, x, None));
            rc(l, judge(1, x, x, None));
            let v5 = judge(5, [0.0, 0.0], x, Some(l));
            rc(l, v5);
            if x[1] == 0.0 {
                rc(l, judge(2, x, x, None));
                rc(l, judge(4, x, x, None));
            }
            for s in [1.0f64, -1.0] {
                rc(l, judge(0, x, [s, 0.0], None));
                rc(l, judge(1, x, [s, 0.0], None));
                rc(l, judge(2, x, [s, 0.0], None));
                rc(l, judge(3, x, [s, 0.0], None));
            }
        }
    });
    let js: Vec<i32> = (-450..=450).collect();
    let xs2: Vec<[f64; 2]> = xs.iter().step_by(if quick { 9 } else { 3 }).cloned().collect();
    let nx2 = xs2.len();
    let base2 = base + (nx as u64) * 16;
    r.par("x / 2^j", js.len(), (nx2 * js.len()) as u64 * 2, |c, l| {
        let j = js[c];
        for (i, x) in xs2.iter().enumerate() {
            for s in [1.0f64, -1.0] {
                let f = s * 2f64.powi(j);
                for call in 0..4usize {
                    let v = judge(call, *x, [f, 0.0], None);
                    rec.record(l, base2 + ((c * nx2 + i) * 8) as u64 + call as u64 + if s < 0.0 { 4 } else { 0 }, v);
                }
            }
        }
    });
    {
        let org = crate::organic::states(1);
        let b: Vec<[f64; 2]> = if quick { org.iter().step_by(5).cloned().collect() } else { org.clone() };
        let (na, nb) = (org.len(), b.len());
        r.notes.push(format!("organic operands: {} chain states (depth 1 from the C01 seeds) x {} of them", na, nb));
        r.par("organic pairs (chain results as operands)", na, (na * nb) as u64, |i, l| {
            for (j, y) in b.iter().enumerate() {
                for call in 0..6usize {
                    let v = judge(call, org[i], *y, Some(l));
                    rec.record(l, (1u64 << 61) + ((i * nb + j) * 6 + call) as u64, v);
                }
            }
        });
    }
    {
        // generic stream: both operands with full-size mantissas in both words; the second operand's exponent is
        // tied to the first one's (offsets -3..3) so that the words interact
        let n: u64 = if quick { 3_000_000 } else { 300_000_000 };
        r.notes.push(format!("generic stream: {} pairs from a fixed Weyl sequence (full 52-bit fractions in all four words, exponents over the whole claimed range, exponent offset -3..3)", n));
        let chunk = 1u64 << 16;
        r.par("generic stream (fixed Weyl sequence)", (n / chunk) as usize, n, |c, l| {
            for i in (c as u64 * chunk)..((c as u64 + 1) * chunk) {
                let a = match tfref::alpha::generic_dd(i, 53, -450 + 3, 449 - 3) {
                    Some(a) => a,
                    None => continue,
                };
                let ea = crate::grid::exp_of(a[0]);
                let d = (i % 7) as i32 - 3;
                let b = match tfref::alpha::generic_dd(i, 1000 + (i % 13), ea + d, ea + d) {
                    Some(b) => b,
                    None => continue,
                };
                for call in 0..6usize {
                    let v = judge(call, a, b, Some(l));
                    rec.record(l, (1u64 << 62) + i * 8 + call as u64, v);
                }
            }
        });
    }
    {
        // the same object on both sides: `&x / &x` (aliased references), which a squaring / self-cancellation shortcut keyed on
        // pointer identity would treat differently from two equal values; judged with the oracle of (x, x)
        let xs = crate::fx::self_alphabet(quick, -450, 449, 501);
        let nx = xs.len();
        r.notes.push(format!("aliased operands (&x / &x, one object): {} operands (grid over exponents -450..449, one-call chain states, generic stream)", nx));
        r.par("aliased operands: &x / &x", nx.div_ceil(4096), nx as u64, |c, l| {
            for i in (c * 4096)..((c + 1) * 4096).min(nx) {
                for call in [6usize] {
                    let v = judge(call, xs[i], xs[i], Some(l));
                    rec.record(l, (5u64 << 59) + (i * 4 + call % 4) as u64, v);
                }
            }
        });
    }
    {
        use crate::api::Op;
        let pairs = [([3.0, 3.0 * 2f64.powi(-60)], [3.0, 0.0]), ([1.5, 1e-17], [1.25, -3e-18]), ([1.0, 2f64.powi(-60)], [7.0, 1e-16])];
        let mut groups = crate::hist::binary_groups(&[Op::div, Op::f_div], &pairs);
        groups.extend(crate::hist::binary_groups(&[Op::div_assign, Op::div_f], &pairs[..2]));
        groups.extend(crate::hist::unary_groups(&[Op::recip], &[[3.0, 1e-16], [0.7, -2e-17]], [5.0, 0.0]));
        crate::hist::explore(r, "histories: / and recip (operand orders, signs, low words, assign forms)", &groups, 3, &hist_judge, 14u64 << 55);
        // cross-family histories: the same judged calls, preceded by every other public function on the same operands
        crate::hist::explore_mixed(r, "cross-family histories: any public call, then / and recip (operand orders, signs, low words, assign forms)", &groups, 2, &hist_judge, (14u64 << 55) + (1u64 << 53));
    }
}
