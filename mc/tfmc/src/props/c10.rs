//! C10 — all spellings of an operation give bit-identical results.
use crate::api::{canon, st};
use crate::grid::dedup;
use crate::run::{api, Runner, Verdict};
use crate::util::show_dd;
use num_traits::{Inv, Pow};
use serde_json::json;
use st::TF;
use tfref::big::dd_valid_fast;

type W = [u64; 2];
fn wd(t: TF) -> W {
    [canon(t.hi().to_bits()), canon(t.lo().to_bits())]
}
fn show(w: W) -> String {
    show_dd([f64::from_bits(w[0]), f64::from_bits(w[1])])
}
/// words equal up to the sign of zero words (for algebraic identities, see DESIGN §2.5)
fn same_mod_zero_sign(a: W, b: W) -> bool {
    (0..2).all(|i| a[i] == b[i] || (f64::from_bits(a[i]) == 0.0 && f64::from_bits(b[i]) == 0.0))
}

/// Evaluate a list of spellings, each under catch_unwind; returns (name, Some(words) | None for panic)
fn eval(list: Vec<(&'static str, Box<dyn Fn() -> TF + '_>)>) -> Vec<(&'static str, Option<W>)> {
    list.into_iter().map(|(n, f)| (n, api(|| f()).ok().map(wd))).collect()
}

fn all_same(clause: &'static str, call: &'static str, args: &[u64], rs: &[(&'static str, Option<W>)]) -> Verdict {
    let first = &rs[0];
    for r in &rs[1..] {
        if r.1 != first.1 {
            return Verdict::fail(
                clause,
                call,
                args,
                format!("{} = {}", r.0, r.1.map(show).unwrap_or("panic".into())),
                format!("identical to {} = {}", first.0, first.1.map(show).unwrap_or("panic".into())),
                "spelling_differs",
            );
        }
    }
    Verdict::Pass
}

macro_rules! binop_spellings {
    ($fname:ident, $op:tt, $asg:tt, $cname:expr) => {
        /// TwoFloat (op) TwoFloat, TwoFloat (op) f64, f64 (op) TwoFloat in all value/reference/assignment spellings
        pub fn $fname(kind: u8, aw: [f64; 2], bw: [f64; 2]) -> Verdict {
            let a = st::mk(aw);
            let b = st::mk(bw);
            let f = bw[0];
            let args = [aw[0].to_bits(), aw[1].to_bits(), bw[0].to_bits(), bw[1].to_bits()];
            match kind {
                0 => {
                    let mut list: Vec<(&'static str, Box<dyn Fn() -> TF + '_>)> = vec![
                        ("a op b", Box::new(|| a $op b)),
                        ("&a op b", Box::new(|| &a $op b)),
                        ("a op &b", Box::new(|| a $op &b)),
                        ("&a op &b", Box::new(|| &a $op &b)),
                        ("a op= b", Box::new(|| { let mut t = a; t $asg b; t })),
                        ("a op= &b", Box::new(|| { let mut t = a; t $asg &b; t })),
                    ];
                    if args[0] == args[2] && args[1] == args[3] {
                        // equal operands: also the spelling in which both references point to the SAME object
                        list.push(("&a op &a (one object)", Box::new(|| &a $op &a)));
                        list.push(("r = &a; r op r", Box::new(|| { let r = &a; r $op r })));
                    }
                    let rs = eval(list);
                    all_same("spelling tf,tf", $cname, &args, &rs)
                }
                1 => {
                    let rs = eval(vec![
                        ("a op f", Box::new(|| a $op f)),
                        ("&a op f", Box::new(|| &a $op f)),
                        ("a op &f", Box::new(|| a $op &f)),
                        ("&a op &f", Box::new(|| &a $op &f)),
                        ("a op= f", Box::new(|| { let mut t = a; t $asg f; t })),
                        ("a op= &f", Box::new(|| { let mut t = a; t $asg &f; t })),
                    ]);
                    all_same("spelling tf,f64", $cname, &args, &rs)
                }
                _ => {
                    let rs = eval(vec![
                        ("f op a", Box::new(|| f $op a)),
                        ("&f op a", Box::new(|| &f $op a)),
                        ("f op &a", Box::new(|| f $op &a)),
                        ("&f op &a", Box::new(|| &f $op &a)),
                    ]);
                    all_same("spelling f64,tf", $cname, &args, &rs)
                }
            }
        }
    };
}
binop_spellings!(sp_add, +, +=, "add");
binop_spellings!(sp_sub, -, -=, "sub");
binop_spellings!(sp_mul, *, *=, "mul");
binop_spellings!(sp_div, /, /=, "div");
binop_spellings!(sp_rem, %, %=, "rem");

/// the algebraic identities of the property
pub fn identities(aw: [f64; 2], bw: [f64; 2]) -> Verdict {
    let a = st::mk(aw);
    let b = st::mk(bw);
    let f = bw[0];
    let args = [aw[0].to_bits(), aw[1].to_bits(), bw[0].to_bits(), bw[1].to_bits()];
    let groups: Vec<(&'static str, Vec<(&'static str, Box<dyn Fn() -> TF>)>)> = vec![
        ("a+b == b+a", vec![("a+b", Box::new(move || a + b)), ("b+a", Box::new(move || b + a))]),
        ("x+f == f+x", vec![("x+f", Box::new(move || a + f)), ("f+x", Box::new(move || f + a))]),
        ("x*f == f*x", vec![("x*f", Box::new(move || a * f)), ("f*x", Box::new(move || f * a))]),
        ("a-b == a+(-b) == -(b-a)", vec![("a-b", Box::new(move || a - b)), ("a+(-b)", Box::new(move || a + (-b))), ("-(b-a)", Box::new(move || -(b - a)))]),
        ("(-a)*b == -(a*b)", vec![("(-a)*b", Box::new(move || (-a) * b)), ("-(a*b)", Box::new(move || -(a * b)))]),
    ];
    for (clause, g) in groups {
        let rs: Vec<(&'static str, Option<W>)> = g.into_iter().map(|(n, f)| (n, api(|| f()).ok().map(wd))).collect();
        for r in &rs[1..] {
            let ok = match (r.1, rs[0].1) {
                (Some(x), Some(y)) => same_mod_zero_sign(x, y),
                (None, None) => true,
                _ => false,
            };
            if !ok {
                return Verdict::fail(clause, "identity", &args, format!("{} = {}", r.0, r.1.map(show).unwrap_or("panic".into())), format!("{} = {}", rs[0].0, rs[0].1.map(show).unwrap_or("panic".into())), "identity_broken");
            }
        }
    }
    Verdict::Pass
}

/// unary spellings and every num_traits entry point with an inherent counterpart
pub fn traits_unary(aw: [f64; 2]) -> Verdict {
    use num_traits::float::FloatCore as FC;
    use num_traits::Float as F;
    use num_traits::Signed as S;
    let a = st::mk(aw);
    let args = [aw[0].to_bits(), aw[1].to_bits()];
    macro_rules! grp {
        ($clause:expr, $( ($n:expr, $e:expr) ),+ ) => {{
            let rs = eval(vec![ $( ($n, Box::new(|| $e)) ),+ ]);
            let v = all_same($clause, "trait_unary", &args, &rs);
            if v.is_fail() { return v; }
        }};
    }
    grp!("neg", ("-x", -a), ("-&x", -&a));
    {
        let rs = eval(vec![("-(-x)", Box::new(|| -(-a))), ("x", Box::new(|| a))]);
        let v = all_same("-(-a) == a", "identity", &args, &rs);
        if v.is_fail() {
            return v;
        }
    }
    grp!("floor", ("floor", a.floor()), ("Float::floor", F::floor(a)), ("FloatCore::floor", FC::floor(a)));
    grp!("ceil", ("ceil", a.ceil()), ("Float::ceil", F::ceil(a)), ("FloatCore::ceil", FC::ceil(a)));
    grp!("round", ("round", a.round()), ("Float::round", F::round(a)), ("FloatCore::round", FC::round(a)));
    grp!("trunc", ("trunc", a.trunc()), ("Float::trunc", F::trunc(a)), ("FloatCore::trunc", FC::trunc(a)));
    grp!("fract", ("fract", a.fract()), ("Float::fract", F::fract(a)), ("FloatCore::fract", FC::fract(a)));
    grp!("abs", ("abs", TF::abs(&a)), ("Float::abs", F::abs(a)), ("FloatCore::abs", FC::abs(a)), ("Signed::abs", S::abs(&a)));
    grp!("signum", ("signum", TF::signum(&a)), ("Float::signum", F::signum(a)), ("FloatCore::signum", FC::signum(a)), ("Signed::signum", S::signum(&a)));
    grp!("recip", ("recip", a.recip()), ("Float::recip", F::recip(a)), ("FloatCore::recip", FC::recip(a)), ("Inv::inv", Inv::inv(a)), ("Inv::inv(&)", Inv::inv(&a)), ("1.0/x", 1.0 / a));
    grp!("to_degrees", ("to_degrees", a.to_degrees()), ("Float::to_degrees", F::to_degrees(a)), ("FloatCore::to_degrees", FC::to_degrees(a)));
    grp!("to_radians", ("to_radians", a.to_radians()), ("Float::to_radians", F::to_radians(a)), ("FloatCore::to_radians", FC::to_radians(a)));
    grp!("sqrt", ("sqrt", a.sqrt()), ("Float::sqrt", F::sqrt(a)));
    grp!("cbrt", ("cbrt", a.cbrt()), ("Float::cbrt", F::cbrt(a)));
    grp!("exp", ("exp", a.exp()), ("Float::exp", F::exp(a)));
    grp!("exp2", ("exp2", a.exp2()), ("Float::exp2", F::exp2(a)));
    grp!("exp_m1", ("exp_m1", a.exp_m1()), ("Float::exp_m1", F::exp_m1(a)));
    grp!("ln", ("ln", a.ln()), ("Float::ln", F::ln(a)));
    grp!("ln_1p", ("ln_1p", a.ln_1p()), ("Float::ln_1p", F::ln_1p(a)));
    grp!("log2", ("log2", a.log2()), ("Float::log2", F::log2(a)));
    grp!("log10", ("log10", a.log10()), ("Float::log10", F::log10(a)));
    grp!("sin", ("sin", a.sin()), ("Float::sin", F::sin(a)));
    grp!("cos", ("cos", a.cos()), ("Float::cos", F::cos(a)));
    grp!("tan", ("tan", a.tan()), ("Float::tan", F::tan(a)));
    grp!("asin", ("asin", a.asin()), ("Float::asin", F::asin(a)));
    grp!("acos", ("acos", a.acos()), ("Float::acos", F::acos(a)));
    grp!("atan", ("atan", a.atan()), ("Float::atan", F::atan(a)));
    grp!("sinh", ("sinh", a.sinh()), ("Float::sinh", F::sinh(a)));
    grp!("cosh", ("cosh", a.cosh()), ("Float::cosh", F::cosh(a)));
    grp!("tanh", ("tanh", a.tanh()), ("Float::tanh", F::tanh(a)));
    grp!("asinh", ("asinh", a.asinh()), ("Float::asinh", F::asinh(a)));
    grp!("acosh", ("acosh", a.acosh()), ("Float::acosh", F::acosh(a)));
    grp!("atanh", ("atanh", a.atanh()), ("Float::atanh", F::atanh(a)));
    grp!("sin_cos.0", ("sin_cos.0", a.sin_cos().0), ("Float::sin_cos.0", F::sin_cos(a).0));
    grp!("sin_cos.1", ("sin_cos.1", a.sin_cos().1), ("Float::sin_cos.1", F::sin_cos(a).1));
    for n in [-129i32, -3, -2, -1, 0, 1, 2, 3, 7, 100, 127, 255, 40000] {
        let rs = eval(vec![
            ("powi", Box::new(|| a.powi(n))),
            ("Float::powi", Box::new(|| F::powi(a, n))),
            ("FloatCore::powi", Box::new(|| FC::powi(a, n))),
            ("Pow<i32>", Box::new(|| Pow::pow(a, n))),
            ("Pow<&i32>", Box::new(|| Pow::pow(a, &n))),
            ("&Pow<i32>", Box::new(|| Pow::pow(&a, n))),
            ("&Pow<&i32>", Box::new(|| Pow::pow(&a, &n))),
        ]);
        let v = all_same("powi", "trait_unary", &[args[0], args[1], n as i64 as u64], &rs);
        if v.is_fail() {
            return v;
        }
        if (i16::MIN as i32..=i16::MAX as i32).contains(&n) {
            let m = n as i16;
            let rs = eval(vec![("powi", Box::new(|| a.powi(n))), ("Pow<i16>", Box::new(|| Pow::pow(a, m))), ("&Pow<&i16>", Box::new(|| Pow::pow(&a, &m)))]);
            let v = all_same("Pow<i16>", "trait_unary", &[args[0], args[1], n as i64 as u64], &rs);
            if v.is_fail() {
                return v;
            }
        }
        if (i8::MIN as i32..=i8::MAX as i32).contains(&n) {
            let m = n as i8;
            let rs = eval(vec![("powi", Box::new(|| a.powi(n))), ("Pow<i8>", Box::new(|| Pow::pow(a, m))), ("&Pow<&i8>", Box::new(|| Pow::pow(&a, &m)))]);
            let v = all_same("Pow<i8>", "trait_unary", &[args[0], args[1], n as i64 as u64], &rs);
            if v.is_fail() {
                return v;
            }
        }
        if (0..=u16::MAX as i32).contains(&n) {
            let m = n as u16;
            let rs = eval(vec![("powi", Box::new(|| a.powi(n))), ("Pow<u16>", Box::new(|| Pow::pow(a, m))), ("&Pow<&u16>", Box::new(|| Pow::pow(&a, &m)))]);
            let v = all_same("Pow<u16>", "trait_unary", &[args[0], args[1], n as i64 as u64], &rs);
            if v.is_fail() {
                return v;
            }
        }
        if (0..=u8::MAX as i32).contains(&n) {
            let m = n as u8;
            let rs = eval(vec![("powi", Box::new(|| a.powi(n))), ("Pow<u8>", Box::new(|| Pow::pow(a, m))), ("&Pow<&u8>", Box::new(|| Pow::pow(&a, &m)))]);
            let v = all_same("Pow<u8>", "trait_unary", &[args[0], args[1], n as i64 as u64], &rs);
            if v.is_fail() {
                return v;
            }
        }
    }
    // boolean / classification entry points
    let bools = api(|| {
        (
            TF::is_sign_positive(&a) == F::is_sign_positive(a) && TF::is_sign_positive(&a) == FC::is_sign_positive(a) && TF::is_sign_positive(&a) == S::is_positive(&a),
            TF::is_sign_negative(&a) == F::is_sign_negative(a) && TF::is_sign_negative(&a) == FC::is_sign_negative(a) && TF::is_sign_negative(&a) == S::is_negative(&a),
            a.is_valid() == F::is_finite(a) && a.is_valid() == FC::is_finite(a),
        )
    });
    match bools {
        Ok((true, true, true)) => {}
        Ok(b) => return Verdict::fail("sign/finite queries", "trait_unary", &args, format!("{:?}", b), "trait == inherent".into(), "spelling_differs"),
        Err(m) => return Verdict::fail("no_panic", "trait_unary", &args, format!("panic: {}", m), "booleans".into(), "panic"),
    }
    Verdict::Pass
}

/// binary trait entry points
pub fn traits_binary(aw: [f64; 2], bw: [f64; 2], cw: [f64; 2]) -> Verdict {
    use num_traits::float::FloatCore as FC;
    use num_traits::Float as F;
    use num_traits::Signed as S;
    let a = st::mk(aw);
    let b = st::mk(bw);
    let c = st::mk(cw);
    let f = bw[0];
    let args = [aw[0].to_bits(), aw[1].to_bits(), bw[0].to_bits(), bw[1].to_bits(), cw[0].to_bits(), cw[1].to_bits()];
    macro_rules! grp {
        ($clause:expr, $( ($n:expr, $e:expr) ),+ ) => {{
            let rs = eval(vec![ $( ($n, Box::new(|| $e)) ),+ ]);
            let v = all_same($clause, "trait_binary", &args, &rs);
            if v.is_fail() { return v; }
        }};
    }
    grp!("min", ("min", a.min(b)), ("Float::min", F::min(a, b)), ("FloatCore::min", FC::min(a, b)));
    grp!("max", ("max", a.max(b)), ("Float::max", F::max(a, b)), ("FloatCore::max", FC::max(a, b)));
    grp!("hypot", ("hypot", a.hypot(b)), ("Float::hypot", F::hypot(a, b)));
    grp!("atan2", ("atan2", a.atan2(b)), ("Float::atan2", F::atan2(a, b)));
    grp!("log", ("log", a.log(b)), ("Float::log", F::log(a, b)), ("ln/ln", a.ln() / b.ln()));
    grp!("powf", ("powf", a.powf(b)), ("Float::powf", F::powf(a, b)), ("Pow<TwoFloat>", Pow::pow(a, b)), ("Pow<&TwoFloat>", Pow::pow(a, &b)), ("&Pow<TwoFloat>", Pow::pow(&a, b)), ("&Pow<&TwoFloat>", Pow::pow(&a, &b)));
    grp!("powf f64", ("powf(from(f))", a.powf(TF::from(f))), ("Pow<f64>", Pow::pow(a, f)), ("Pow<&f64>", Pow::pow(a, &f)), ("&Pow<f64>", Pow::pow(&a, f)), ("&Pow<&f64>", Pow::pow(&a, &f)));
    grp!("abs_sub", ("(a-b).abs()", TF::abs(&(a - b))), ("Float::abs_sub", F::abs_sub(a, b)), ("Signed::abs_sub", S::abs_sub(&a, &b)));
    grp!("mul_add", ("self*a+b", a * b + c), ("Float::mul_add", F::mul_add(a, b, c)));
    grp!("copysign", ("copysign", TF::copysign(&a, &b)), ("Float::copysign", F::copysign(a, b)));
    Verdict::Pass
}

/// constants and nullary trait functions
pub fn traits_const() -> Verdict {
    use num_traits::float::FloatCore as FC;
    use num_traits::{Bounded, Float as F, FloatConst as K, One, Zero};
    use twofloat::consts as c;
    let list: Vec<(&'static str, TF, TF)> = vec![
        ("Zero::zero", <TF as Zero>::zero(), TF::from(0.0)),
        ("One::one", <TF as One>::one(), TF::from(1.0)),
        ("Bounded::min_value", <TF as Bounded>::min_value(), TF::MIN),
        ("Bounded::max_value", <TF as Bounded>::max_value(), TF::MAX),
        ("Float::min_value", <TF as F>::min_value(), TF::MIN),
        ("Float::max_value", <TF as F>::max_value(), TF::MAX),
        ("FloatCore::min_value", <TF as FC>::min_value(), TF::MIN),
        ("FloatCore::max_value", <TF as FC>::max_value(), TF::MAX),
        ("Float::min_positive_value", <TF as F>::min_positive_value(), TF::MIN_POSITIVE),
        ("FloatCore::min_positive_value", <TF as FC>::min_positive_value(), TF::MIN_POSITIVE),
        ("Float::epsilon", <TF as F>::epsilon(), TF::EPSILON),
        ("FloatCore::epsilon", <TF as FC>::epsilon(), TF::EPSILON),
        ("Float::infinity", <TF as F>::infinity(), TF::INFINITY),
        ("FloatCore::infinity", <TF as FC>::infinity(), TF::INFINITY),
        ("Float::neg_infinity", <TF as F>::neg_infinity(), TF::NEG_INFINITY),
        ("FloatCore::neg_infinity", <TF as FC>::neg_infinity(), TF::NEG_INFINITY),
        ("Float::neg_zero", <TF as F>::neg_zero(), TF::from(-0.0)),
        ("FloatCore::neg_zero", <TF as FC>::neg_zero(), TF::from(-0.0)),
        ("Float::nan", <TF as F>::nan(), TF::NAN),
        ("FloatCore::nan", <TF as FC>::nan(), TF::NAN),
        ("E", <TF as K>::E(), c::E),
        ("FRAC_1_PI", <TF as K>::FRAC_1_PI(), c::FRAC_1_PI),
        ("FRAC_1_SQRT_2", <TF as K>::FRAC_1_SQRT_2(), c::FRAC_1_SQRT_2),
        ("FRAC_2_PI", <TF as K>::FRAC_2_PI(), c::FRAC_2_PI),
        ("FRAC_2_SQRT_PI", <TF as K>::FRAC_2_SQRT_PI(), c::FRAC_2_SQRT_PI),
        ("FRAC_PI_2", <TF as K>::FRAC_PI_2(), c::FRAC_PI_2),
        ("FRAC_PI_3", <TF as K>::FRAC_PI_3(), c::FRAC_PI_3),
        ("FRAC_PI_4", <TF as K>::FRAC_PI_4(), c::FRAC_PI_4),
        ("FRAC_PI_6", <TF as K>::FRAC_PI_6(), c::FRAC_PI_6),
        ("FRAC_PI_8", <TF as K>::FRAC_PI_8(), c::FRAC_PI_8),
        ("LN_10", <TF as K>::LN_10(), c::LN_10),
        ("LN_2", <TF as K>::LN_2(), c::LN_2),
        ("LOG10_E", <TF as K>::LOG10_E(), c::LOG10_E),
        ("LOG2_E", <TF as K>::LOG2_E(), c::LOG2_E),
        ("PI", <TF as K>::PI(), c::PI),
        ("SQRT_2", <TF as K>::SQRT_2(), c::SQRT_2),
        ("TAU", <TF as K>::TAU(), c::TAU),
        ("LOG10_2", <TF as K>::LOG10_2(), c::LOG10_2),
        ("LOG2_10", <TF as K>::LOG2_10(), c::LOG2_10),
    ];
    for (n, got, want) in list {
        if wd(got) != wd(want) {
            return Verdict::fail("trait constants", "trait_const", &[], format!("{} = {}", n, show(wd(got))), format!("{}", show(wd(want))), "spelling_differs");
        }
    }
    Verdict::Pass
}

pub fn replay(call: &str, clause: &str, args: &[u64]) -> Verdict {
    let g = |i: usize| [f64::from_bits(*args.get(2 * i).unwrap_or(&0)), f64::from_bits(*args.get(2 * i + 1).unwrap_or(&0))];
    let kind = if clause.ends_with("tf,tf") {
        0
    } else if clause.ends_with("tf,f64") {
        1
    } else {
        2
    };
    match call {
        "add" => sp_add(kind, g(0), g(1)),
        "sub" => sp_sub(kind, g(0), g(1)),
        "mul" => sp_mul(kind, g(0), g(1)),
        "div" => sp_div(kind, g(0), g(1)),
        "rem" => sp_rem(kind, g(0), g(1)),
        "identity" if args.len() >= 4 => identities(g(0), g(1)),
        "identity" | "trait_unary" => traits_unary(g(0)),
        "trait_binary" => traits_binary(g(0), g(1), g(2)),
        "trait_const" => traits_const(),
        "sum_tf" | "sum_f64" => crate::props::c03::replay(call, clause, args),
        _ => panic!("unknown call {}", call),
    }
}

pub fn alphabet(quick: bool) -> Vec<[f64; 2]> {
    let mut v: Vec<[f64; 2]> = vec![[0.0, 0.0], [-0.0, 0.0], [0.0, -0.0], [-0.0, -0.0]];
    let his: Vec<f64> = {
        let mut h = vec![1.0, -1.0, 2.0, 0.5, 3.0, -7.0, 1.5, 1.0 + 2f64.powi(-52), 2.0 - 2f64.powi(-52), core::f64::consts::PI, -core::f64::consts::E, 0.1, 1e-5, 123456.789, 2f64.powi(60) + 1024.0, -2f64.powi(-60), 1e300, -1e-300, 2f64.powi(-1000), 2f64.powi(1000), 2f64.powi(120), 2f64.powi(-120), 0.75, 0.25, 100.75, 709.5, -745.0, 2f64.powi(-1022), f64::MAX, 49.0, 10.0, core::f64::consts::E, 4.0, 0.1, 16.0, 180.0];
        if !quick {
            for k in [-900, -500, -108, -54, -53, -2, 3, 20, 53, 54, 107, 200, 500, 900] {
                h.push(2f64.powi(k));
                h.push(-2f64.powi(k) * 1.25);
                h.push(2f64.powi(k) * 1.9999999999999998);
            }
        }
        h
    };
    let lf = [0u64, (1u64 << 52) - 1, tfref::alpha::gen_fracs(1)[0]];
    for h in his {
        v.extend(crate::grid::with_los(h, if quick { &[0, 1, 30, 53] } else { &[0, 1, 2, 10, 30, 53, 54, 200] }, &lf, &[5e-324]));
    }
    dedup(&mut v);
    v.retain(|w| dd_valid_fast(w[0], w[1]));
    v
}

pub fn run(r: &mut Runner) {
    let quick = r.quick();
    let valid = alphabet(quick);
    let (inv, bfs) = crate::props::c06::reachable_invalid(if quick { 1 } else { 3 });
    r.transitions += bfs as u64;
    let mut all = valid.clone();
    // organic operands: chain results (one API call from the C01 seeds)
    let org = crate::organic::states(1);
    all.extend(org.iter().step_by(if quick { 6 } else { 2 }).cloned());
    crate::grid::dedup(&mut all);
    all.extend(inv.iter().cloned());
    let n = all.len();
    r.notes.push(format!("{} valid operands (incl. a subset of the one-call chain states) and {} reachable invalid/non-finite representatives; all {} ordered pairs x 5 operators x 16 spellings; identities; {} unary trait entry points per operand", n - inv.len(), inv.len(), n * n, 45));
    r.add_sample(json!({"a": show_dd(all[5]), "b": show_dd(all[n / 2]), "spellings": ["a op b", "&a op b", "a op &b", "&a op &b", "a op= b", "a op= &b", "a op f", "...", "f op a", "..."]}));
    let rec = r.recorder();
    r.par("operator spellings + identities", n, (n * n) as u64, |i, l| {
        let a = all[i];
        for (j, &b) in all.iter().enumerate() {
            let base = ((i * n + j) * 24) as u64;
            let mut k = 0;
            for kind in 0..3u8 {
                if kind > 0 && b[1].to_bits() != 0 {
                    continue; // f64 operand: once per distinct high word
                }
                for f in [sp_add, sp_sub, sp_mul, sp_div, sp_rem] {
                    rec.record(l, base + k, f(kind, a, b));
                    k += 1;
                }
            }
            rec.record(l, base + k, identities(a, b));
        }
    });
    let base2 = (n * n * 24) as u64;
    r.par("unary trait entry points", n, n as u64, |i, l| {
        rec.record(l, base2 + i as u64, traits_unary(all[i]));
    });
    // binary trait entry points over a thinned pair set, with a third operand for mul_add
    let step = 1;
    let sub: Vec<[f64; 2]> = all.iter().step_by(step).cloned().collect();
    let m = sub.len();
    r.par("binary trait entry points", m, (m * m) as u64, |i, l| {
        for j in 0..m {
            let c = sub[(i * 7 + j * 3 + 1) % m];
            rec.record(l, base2 + (n + i * m + j) as u64, traits_binary(sub[i], sub[j], c));
        }
    });
    r.par("constants / nullary trait functions", 1, 37, |_, l| {
        rec.record(l, u64::MAX - 1, traits_const());
    });
    crate::props::c03::long_sums(r, 5u64 << 60);
    // sum == fold (shared with C03)
    let small: Vec<[f64; 2]> = valid.iter().step_by(valid.len() / 12).cloned().collect();
    let ns = small.len();
    let maxlen = if quick { 3 } else { 4 };
    let mut total = 0usize;
    for len in 0..=maxlen {
        total += ns.pow(len as u32);
    }
    r.par("sum == left fold", total.div_ceil(2048).max(1), 2 * total as u64, |c, l| {
        for t in (c * 2048)..((c + 1) * 2048).min(total) {
            let mut rem = t;
            let mut len = 0;
            loop {
                let cnt = ns.pow(len as u32);
                if rem < cnt {
                    break;
                }
                rem -= cnt;
                len += 1;
            }
            let mut seq = Vec::with_capacity(len);
            for _ in 0..len {
                seq.push(small[rem % ns]);
                rem /= ns;
            }
            for kind in 0..2 {
                rec.record(l, (1u64 << 62) + (t * 2 + kind) as u64, crate::props::c03::judge_sum(kind, &seq));
            }
        }
    });
}
