//! C19 — remainder and Euclidean division follow truncated / floored quotient semantics.
use crate::api::st;
use crate::grid::{dedup, with_los};
use crate::run::{api, Local, Runner, Verdict};
use crate::util::show_dd;
use core::cmp::Ordering;
use serde_json::json;
use tfref::alpha::{gen_fracs, mk_f64, run_bounded, weyl_fracs};
use tfref::big::{dd_valid, dd_valid_fast, Dy};

pub const CALLS: [&str; 8] = ["rem", "rem_assign", "rem_f", "rem_assign_f", "f_rem", "div_euclid", "rem_euclid", "rem_self"];

fn in_range(hi: f64) -> bool {
    hi.is_finite() && hi.abs() >= 2f64.powi(-400) && hi.abs() <= 2f64.powi(400)
}

pub struct Spec {
    pub a: Dy,
    pub b: Dy,
    pub k: Dy,
    /// admitted truncated quotients
    pub trunc_adm: Vec<Dy>,
    /// admitted Euclidean quotients
    pub eucl_adm: Vec<Dy>,
    pub near_integer: bool,
    pub tol_base: Dy,
    pub int_exact: bool,
}

/// exact specification for operands A, B (already known to be in range)
pub fn spec(a: &Dy, b: &Dy) -> Option<Spec> {
    // |a/b| <= 2^90
    if a.cmp_abs(&b.abs().mul_pow2(90)) == Ordering::Greater {
        return None;
    }
    let (k, _) = a.div_trunc(b, 92);
    let one = Dy::from_i64(1);
    let sgn = if a.is_neg() != b.is_neg() { one.neg() } else { one.clone() };
    let near = |m: &Dy| -> bool {
        let e = a.sub(&m.mul(b));
        e.within(1, -98, a).0
    };
    let k_out = k.add(&sgn);
    let mut trunc_adm = vec![k.clone()];
    let mut near_m: Option<Dy> = None;
    if !k.is_zero() && near(&k) {
        trunc_adm.push(k.sub(&sgn));
        near_m = Some(k.clone());
    } else if near(&k_out) {
        trunc_adm.push(k_out.clone());
        near_m = Some(k_out.clone());
    }
    // Euclidean quotient: floor(q) for b > 0, ceil(q) for b < 0
    let exact_div = a.sub(&k.mul(b)).is_zero();
    let q_neg = a.is_neg() != b.is_neg();
    let floor_q = if exact_div || !q_neg { k.clone() } else { k.sub(&one) };
    let ceil_q = if exact_div || q_neg { k.clone() } else { k.add(&one) };
    let e = if !b.is_neg() { floor_q } else { ceil_q };
    let mut eucl_adm = vec![e.clone()];
    if let Some(m) = &near_m {
        if !b.is_neg() {
            eucl_adm.push(m.clone());
            eucl_adm.push(m.sub(&one));
        } else {
            eucl_adm.push(m.clone());
            eucl_adm.push(m.add(&one));
        }
    }
    let tol_base = if a.cmp_abs(b) == Ordering::Greater { a.abs() } else { b.abs() };
    let lim = Dy::pow2(53);
    let int_exact = a.is_integer() && b.is_integer() && a.cmp_abs(&lim) == Ordering::Less && b.cmp_abs(&lim) == Ordering::Less;
    Some(Spec { a: a.clone(), b: b.clone(), k, trunc_adm, eucl_adm, near_integer: near_m.is_some(), tol_base, int_exact })
}

pub fn judge(call: usize, aw: [f64; 2], bw: [f64; 2], l: Option<&mut Local>) -> Verdict {
    let name = CALLS[call];
    let args = [aw[0].to_bits(), aw[1].to_bits(), bw[0].to_bits(), bw[1].to_bits()];
    // 7: `&x % &x` with BOTH operands the same object (aliased references); judged as rem of (a, a)
    let aliased = call == 7;
    if aliased && (aw[0].to_bits() != bw[0].to_bits() || aw[1].to_bits() != bw[1].to_bits()) {
        return Verdict::Skip;
    }
    if !in_range(aw[0]) || !in_range(bw[0]) || !dd_valid_fast(aw[0], aw[1]) || !dd_valid_fast(bw[0], bw[1]) {
        return Verdict::Skip;
    }
    let (da, db) = match call {
        2 | 3 => (Dy::from_dd(aw[0], aw[1]), Dy::from_f64(bw[0])),
        4 => (Dy::from_f64(aw[0]), Dy::from_dd(bw[0], bw[1])),
        _ => (Dy::from_dd(aw[0], aw[1]), Dy::from_dd(bw[0], bw[1])),
    };
    let sp = match spec(&da, &db) {
        Some(s) => s,
        None => return Verdict::Skip,
    };
    let a = st::mk(aw);
    let b = st::mk(bw);
    let res = api(|| match call {
        7 => &a % &a,
        0 => a % b,
        1 => {
            let mut t = a;
            t %= b;
            t
        }
        2 => a % bw[0],
        3 => {
            let mut t = a;
            t %= bw[0];
            t
        }
        4 => aw[0] % b,
        5 => a.div_euclid(b),
        _ => a.rem_euclid(b),
    });
    let call = if aliased { 0 } else { call };
    let r = match res {
        Ok(t) => [t.hi(), t.lo()],
        Err(m) => return Verdict::fail("no_panic", name, &args, format!("panic: {}", m), "a value".into(), "panic"),
    };
    if !r[0].is_finite() || !r[1].is_finite() {
        return Verdict::fail("finite", name, &args, show_dd(r), "a finite result".into(), "nonfinite");
    }
    let dr = Dy::from_dd(r[0], r[1]);
    if call == 5 {
        if !dd_valid(r[0], r[1]) {
            return Verdict::fail("div_euclid_valid", name, &args, show_dd(r), "a valid TwoFloat".into(), "invalid_result");
        }
        let adm: &Vec<Dy> = if sp.int_exact { &vec![sp.eucl_adm[0].clone()] } else { &sp.eucl_adm };
        if !adm.iter().any(|e| e.eq(&dr)) {
            return Verdict::fail("div_euclid_exact", name, &args, show_dd(r), format!("exactly {} (floor for b>0 / ceil for b<0){}", sp.eucl_adm[0].to_hex(), if sp.near_integer { " or the adjacent integer (a/b within 2^-98 of an integer)" } else { "" }), "wrong_integer");
        }
        return Verdict::Pass;
    }
    let adm: Vec<Dy> = if call == 6 { sp.eucl_adm.clone() } else { sp.trunc_adm.clone() };
    let adm: Vec<Dy> = if sp.int_exact { vec![adm[0].clone()] } else { adm };
    let mut best = f64::INFINITY;
    for m in &adm {
        let want = sp.a.sub(&m.mul(&sp.b));
        let e = dr.sub(&want);
        if sp.int_exact {
            if e.is_zero() {
                return Verdict::Pass;
            }
            continue;
        }
        let (ok, ratio) = e.within(1, -102, &sp.tol_base);
        if ratio < best {
            best = ratio;
        }
        if ok {
            if let Some(l) = l {
                if ratio > 0.05 {
                    l.worst(if call == 6 { "rem_euclid: 16u^2 max(|a|,|b|)" } else { "rem: 16u^2 max(|a|,|b|)" }, ratio, || format!("{} {} {}", name, show_dd(aw), show_dd(bw)));
                }
            }
            return Verdict::Pass;
        }
    }
    let want = sp.a.sub(&adm[0].mul(&sp.b));
    Verdict::fail(
        if sp.int_exact { "integer_operands_exact" } else if call == 6 { "rem_euclid" } else { "rem" },
        name,
        &args,
        show_dd(r),
        format!("a - k*b with k = {}{} : {:?}; tolerance 16*2^-106*max(|a|,|b|); observed/allowed = {:.4}", adm[0].to_hex(), if sp.near_integer { " (or adjacent)" } else { "" }, want.to_dd_rn().map(|t| show_dd([t.0, t.1])), best),
        if sp.int_exact { "inexact" } else { "over_bound" },
    )
}

pub fn hist_judge(c: &crate::hist::HCall, l: Option<&mut Local>) -> Verdict {
    use crate::api::Op;
    let k = match c.as_op() {
        Some(Op::rem) => 0,
        Some(Op::rem_assign) => 1,
        Some(Op::rem_f) => 2,
        Some(Op::rem_assign_f) => 3,
        Some(Op::f_rem) => 4,
        Some(Op::div_euclid) => 5,
        Some(Op::rem_euclid) => 6,
        _ => return Verdict::Skip,
    };
    judge(k, c.a, c.b, l)
}

pub fn replay(call: &str, _clause: &str, args: &[u64]) -> Verdict {
    if call == "hist" {
        return crate::hist::replay(args, &hist_judge);
    }
    let ci = CALLS.iter().position(|c| *c == call).expect("unknown call");
    judge(ci, [f64::from_bits(args[0]), f64::from_bits(args[1])], [f64::from_bits(args[2]), f64::from_bits(args[3])], None)
}

fn to_dd_exact(v: &Dy) -> Option<[f64; 2]> {
    let (h, l) = v.to_dd_rn()?;
    if Dy::from_dd(h, l).eq(v) {
        Some([h, l])
    } else {
        None
    }
}

/// (a, b) pairs
pub fn pairs(quick: bool) -> Vec<([f64; 2], [f64; 2])> {
    let mut out: Vec<([f64; 2], [f64; 2])> = vec![];
    // divisors
    let mut bs: Vec<[f64; 2]> = vec![];
    let mut hf = vec![0u64, 1u64 << 51, (1u64 << 52) - 1, 1];
    hf.extend(gen_fracs(if quick { 2 } else { 4 }));
    hf.extend(weyl_fracs(if quick { 1 } else { 4 }, 13));
    let lf = vec![0u64, (1u64 << 52) - 1, gen_fracs(1)[0]];
    for e in if quick { vec![-400, -1, 0, 3, 399] } else { vec![-400, -399, -100, -1, 0, 1, 3, 52, 100, 399] } {
        for &f in &hf {
            let h = mk_f64(false, e, f).unwrap();
            bs.extend(with_los(h, if quick { &[0, 30] } else { &[0, 1, 30, 53] }, &lf, &[]));
        }
    }
    dedup(&mut bs);
    // integer multipliers
    let mut ks: Vec<Dy> = vec![];
    for n in [1i64, 2, 3, 4, 5, 7, 10, 100, 1000, 12345, 65537, 1_000_000_007] {
        ks.push(Dy::from_i64(n));
    }
    for j in (1..=89).step_by(if quick { 8 } else { 1 }) {
        ks.push(Dy::pow2(j));
        ks.push(Dy::pow2(j).add(&Dy::from_i64(1)));
        ks.push(Dy::pow2(j).sub(&Dy::from_i64(1)));
        ks.push(Dy::pow2(j).mul_u64(3));
    }
    ks.push(Dy::pow2(90));
    for w in weyl_fracs(if quick { 6 } else { 40 }, 14) {
        for sh in [20u32, 45] {
            ks.push(Dy::from_u128((w as u128 | (1u128 << 52)) << sh));
            ks.push(Dy::from_u128(((w as u128 | (1u128 << 52)) << sh) + 1));
        }
        ks.push(Dy::from_u128(w as u128 | (1u128 << 52)));
    }
    for b in &bs {
        let db = Dy::from_dd(b[0], b[1]);
        for k in &ks {
            let prod = k.mul(&db);
            let base = match prod.to_dd_rn() {
                Some(t) => t,
                None => continue,
            };
            if !in_range(base.0) {
                continue;
            }
            let a0 = [base.0, base.1];
            // the (possibly rounded) multiple itself, and neighbours: +-1, 2 ulps of the low word / high word, relative nudges
            let mut avs: Vec<[f64; 2]> = vec![a0];
            let da0 = Dy::from_dd(a0[0], a0[1]);
            let m = da0.msb().unwrap();
            for d in [106, 104, 100, 99, 98, 97, 90, 60, 53, 30] {
                for s in [false, true] {
                    let nudged = if s { da0.sub(&Dy::pow2(m - d)) } else { da0.add(&Dy::pow2(m - d)) };
                    if let Some(v) = to_dd_exact(&nudged) {
                        avs.push(v);
                    }
                }
            }
            for a in avs {
                for (sa, sb) in [(1.0, 1.0), (-1.0, 1.0), (1.0, -1.0), (-1.0, -1.0)] {
                    out.push(([sa * a[0], sa * a[1]], [sb * b[0], sb * b[1]]));
                }
            }
        }
    }
    // generic quotients (including |q| < 1): all pairs of a small generic set
    let mut gs: Vec<[f64; 2]> = vec![];
    for e in if quick { vec![-30, -1, 0, 1, 40] } else { vec![-400, -60, -30, -1, 0, 1, 2, 40, 88, 399] } {
        for &f in &hf {
            for s in [false, true] {
                let h = mk_f64(s, e, f).unwrap();
                gs.extend(with_los(h, &[0, 30], &lf, &[]));
            }
        }
    }
    dedup(&mut gs);
    for a in &gs {
        for b in &gs {
            out.push((*a, *b));
        }
    }
    // small integers: all pairs |a|,|b| <= N
    let n = if quick { 24 } else { 64 };
    for a in -n..=n {
        for b in -n..=n {
            if b != 0 && a != 0 {
                out.push(([a as f64, 0.0], [b as f64, 0.0]));
            }
        }
    }
    // run-bounded integers below 2^53
    let ints: Vec<f64> = run_bounded(53, 2).into_iter().filter(|&v| v != 0).map(|v| v as f64).collect();
    for (i, &a) in ints.iter().enumerate() {
        for &b in ints.iter().step_by(if quick { 5 } else { 1 }) {
            let s = if i % 2 == 0 { 1.0 } else { -1.0 };
            out.push(([a, 0.0], [s * b, 0.0]));
            out.push(([-a, 0.0], [b, 0.0]));
        }
    }
    let mut seen = std::collections::HashSet::new();
    out.retain(|p| seen.insert((p.0[0].to_bits(), p.0[1].to_bits(), p.1[0].to_bits(), p.1[1].to_bits())));
    out
}

pub fn run(r: &mut Runner) {
    let quick = r.quick();
    let ps = pairs(quick);
    let n = ps.len();
    r.notes.push(format!("{} operand pairs: a = k*b exactly / rounded for integer k up to 2^90 (powers of two +-1, 3*2^j, generic 53-98 bit integers) and neighbours a*(1 +- 2^-d) for d in 106..30, all four sign combinations; all pairs of a generic set (quotients below 1 included); all integer pairs |a|,|b| <= N; run-bounded integers below 2^53", n));
    r.add_sample(json!({"a": show_dd(ps[n / 3].0), "b": show_dd(ps[n / 3].1), "calls": CALLS}));
    r.add_sample(json!({"a": show_dd(ps[n - 5].0), "b": show_dd(ps[n - 5].1)}));
    let rec = r.recorder();
    let chunk = 512;
    r.par("% (5 spellings), div_euclid, rem_euclid", n.div_ceil(chunk), n as u64, |c, l| {
        for i in (c * chunk)..((c + 1) * chunk).min(n) {
            let (a, b) = ps[i];
            for call in 0..7usize {
                if (call == 2 || call == 3) && b[1] != 0.0 {
                    continue;
                }
                if call == 4 && a[1] != 0.0 {
                    continue;
                }
                let v = judge(call, a, b, Some(l));
                if let Verdict::Pass = v {
                    l.count(CALLS[call], 1);
                }
                rec.record(l, (i * 7 + call) as u64, v);
            }
        }
    });
    {
        let org = crate::organic::states(1);
        let b: Vec<[f64; 2]> = if quick { org.iter().step_by(9).cloned().collect() } else { org.iter().step_by(2).cloned().collect() };
        let (na, nb) = (org.len(), b.len());
        r.notes.push(format!("organic operands: {} chain states (depth 1 from the C01 seeds) x {} of them", na, nb));
        r.par("organic pairs (chain results as operands)", na, (na * nb) as u64, |i, l| {
            for (j, y) in b.iter().enumerate() {
                for call in 0..7usize {
                    let v = judge(call, org[i], *y, Some(l));
                    rec.record(l, (1u64 << 61) + ((i * nb + j) * 7 + call) as u64, v);
                }
            }
        });
    }
    {
        // the same object on both sides: `&x % &x` (aliased references), which a squaring / self-cancellation shortcut keyed on
        // pointer identity would treat differently from two equal values; judged with the oracle of (x, x)
        let xs = crate::fx::self_alphabet(quick, -400, 399, 1901);
        let nx = xs.len();
        r.notes.push(format!("aliased operands (&x % &x, one object): {} operands (grid over exponents -400..399, one-call chain states, generic stream)", nx));
        r.par("aliased operands: &x % &x", nx.div_ceil(4096), nx as u64, |c, l| {
            for i in (c * 4096)..((c + 1) * 4096).min(nx) {
                for call in [7usize] {
                    let v = judge(call, xs[i], xs[i], Some(l));
                    rec.record(l, (5u64 << 59) + (i * 4 + call % 4) as u64, v);
                }
            }
        });
    }
    {
        // relational pairs: (x, x), (x, -x), (x, 2x), (x, x/2), (x, neighbours of x), (x, hi(x)), (x, +-1) in both orders
        let xs: Vec<[f64; 2]> = crate::fx::grid(&[-400, -100, -1, 0, 1, 52, 53, 54, 100, 399], quick, 191);
        let ps = crate::fx::relational_pairs(&xs);
        let np = ps.len();
        r.notes.push(format!("relational pairs for %, div_euclid, rem_euclid: {} pairs from {} operands (x with x, -x, 2x, x/2, its double-double neighbours, its high word, +-1; both argument orders)", np, xs.len()));
        r.par("relational pairs: %, div_euclid, rem_euclid", np.div_ceil(64), 2 * np as u64, |c, l| {
            for i in (c * 64)..((c + 1) * 64).min(np) {
                let (a, b) = ps[i];
                for call in 0..7usize {
                    let v = judge(call, a, b, Some(l));
                    rec.record(l, (9u64 << 55) + (i * 16 + call) as u64, v);
                    let v = judge(call, b, a, Some(l));
                    rec.record(l, (9u64 << 55) + (i * 16 + 8 + call) as u64, v);
                }
            }
        });
    }
    {
        use crate::api::Op;
        let pairs = [([7.5, 1e-16], [2.0, 1e-17]), ([-9.0, 0.0], [5.0, 0.0]), ([1e10, 1e-7], [3.0, -1e-17])];
        let mut groups = crate::hist::binary_groups(&[Op::rem, Op::rem_euclid], &pairs);
        groups.extend(crate::hist::binary_groups(&[Op::div_euclid, Op::rem_assign], &pairs[..2]));
        crate::hist::explore(r, "histories: %, div_euclid, rem_euclid", &groups, 3, &hist_judge, 14u64 << 55);
        // cross-family histories: the same judged calls, preceded by every other public function on the same operands
        crate::hist::explore_mixed(r, "cross-family histories: any public call, then %, div_euclid, rem_euclid", &groups, 2, &hist_judge, (14u64 << 55) + (1u64 << 53));
    }
}
