//! C13 — roots and integer powers are accurate and total.
use crate::api::st;
use crate::fx::{bfx, grid, grid_thin, is_invalid, judge_tol, words};
use crate::grid::dedup;
use crate::run::{api, Local, Runner, Verdict};
use crate::util::show_dd;
use num_traits::Pow;
use serde_json::json;
use tfref::alpha::run_bounded;
use tfref::bf::{Bf, Iv};
use tfref::big::dd_valid_fast;
use tfref::rf;

fn in_900(h: f64) -> bool {
    h.is_finite() && h.abs() >= 2f64.powi(-900) && h.abs() <= 2f64.powi(900)
}
fn in_400(h: f64) -> bool {
    h.is_finite() && h.abs() >= 2f64.powi(-400) && h.abs() <= 2f64.powi(400)
}

/// |r^k - v| <= ((1+eps)^k - 1) v style check done exactly:  (1-eps)^k v <= r^k <= (1+eps)^k v  with eps = 2^eps_log2
fn root_check(r: &Bf, v: &Bf, k: u32, eps_log2: i64) -> (bool, f64) {
    // r and v have the same sign (checked by the caller); work with magnitudes
    let ra = r.abs();
    let va = v.abs();
    let mut rk = ra.clone();
    for _ in 1..k {
        rk = rk.mul_exact(&ra);
    }
    let one = Bf::from_i64(1);
    let up = one.add_exact(&Bf::pow2(eps_log2));
    let dn = one.sub_exact(&Bf::pow2(eps_log2));
    let mut upk = up.clone();
    let mut dnk = dn.clone();
    for _ in 1..k {
        upk = upk.mul_exact(&up);
        dnk = dnk.mul_exact(&dn);
    }
    let ok = dnk.mul_exact(&va).le(&rk) && rk.le(&upk.mul_exact(&va));
    // approximate ratio |r - root| / (eps root) ~ |r^k - v| / (k eps v)
    let d = rk.sub_exact(&va).abs();
    let ratio = if d.is_zero() { 0.0 } else { (d.approx_log2() - va.approx_log2() - (k as f64).log2() - eps_log2 as f64).exp2() };
    (ok, ratio)
}

pub fn judge_sqrt(x: [f64; 2], l: Option<&mut Local>) -> Verdict {
    let args = words(x);
    if !dd_valid_fast(x[0], x[1]) {
        return Verdict::Skip;
    }
    let t = st::mk(x);
    let r = match api(|| t.sqrt()) {
        Ok(r) => [r.hi(), r.lo()],
        Err(m) => return Verdict::fail("no_panic", "sqrt", &args, format!("panic: {}", m), "a value".into(), "panic"),
    };
    let v = bfx(x);
    if v.is_zero() {
        return if r[0] == 0.0 && r[1] == 0.0 { Verdict::Pass } else { Verdict::fail("sqrt(0)=0", "sqrt", &args, show_dd(r), "exactly 0".into(), "wrong_value") };
    }
    if v.sign() < 0 {
        return if is_invalid(r) { Verdict::Pass } else { Verdict::fail("sqrt(negative) invalid", "sqrt", &args, show_dd(r), "an invalid value".into(), "valid_for_domain_error") };
    }
    if !in_900(x[0]) {
        return Verdict::Skip;
    }
    if !r[0].is_finite() || !r[1].is_finite() {
        return Verdict::fail("sqrt: 32u^2", "sqrt", &args, show_dd(r), "a finite root".into(), "nonfinite");
    }
    let rb = bfx(r);
    if rb.sign() <= 0 {
        return Verdict::fail("sqrt: 32u^2", "sqrt", &args, show_dd(r), "a positive root".into(), "wrong_sign");
    }
    let (ok, ratio) = root_check(&rb, &v, 2, -101);
    if let Some(l) = l {
        if ratio > 0.02 {
            l.worst("sqrt: 32u^2", ratio, || format!("sqrt {}", show_dd(x)));
        }
    }
    if !ok {
        return Verdict::fail("sqrt: 32u^2", "sqrt", &args, show_dd(r), format!("(1-2^-101)^2 x <= r^2 <= (1+2^-101)^2 x; |error|/tolerance ~ {:.4}", ratio), "over_tolerance");
    }
    Verdict::Pass
}

pub fn judge_cbrt(x: [f64; 2], l: Option<&mut Local>) -> Verdict {
    let args = words(x);
    if !dd_valid_fast(x[0], x[1]) {
        return Verdict::Skip;
    }
    let t = st::mk(x);
    let r = match api(|| t.cbrt()) {
        Ok(r) => [r.hi(), r.lo()],
        Err(m) => return Verdict::fail("no_panic", "cbrt", &args, format!("panic: {}", m), "a value".into(), "panic"),
    };
    let v = bfx(x);
    if v.is_zero() {
        return if r[0] == 0.0 && r[1] == 0.0 { Verdict::Pass } else { Verdict::fail("cbrt(0)=0", "cbrt", &args, show_dd(r), "exactly 0".into(), "wrong_value") };
    }
    if !in_900(x[0]) {
        return Verdict::Skip;
    }
    if !r[0].is_finite() || !r[1].is_finite() {
        return Verdict::fail("cbrt: 16u^2", "cbrt", &args, show_dd(r), "a finite root".into(), "nonfinite");
    }
    let rb = bfx(r);
    if rb.sign() != v.sign() {
        return Verdict::fail("cbrt: 16u^2", "cbrt", &args, show_dd(r), "a root with the sign of x".into(), "wrong_sign");
    }
    let (ok, ratio) = root_check(&rb, &v, 3, -102);
    if let Some(l) = l {
        if ratio > 0.02 {
            l.worst("cbrt: 16u^2", ratio, || format!("cbrt {}", show_dd(x)));
        }
    }
    if !ok {
        return Verdict::fail("cbrt: 16u^2", "cbrt", &args, show_dd(r), format!("(1-2^-102)^3 |x| <= |r|^3 <= (1+2^-102)^3 |x|; |error|/tolerance ~ {:.4}", ratio), "over_tolerance");
    }
    Verdict::Pass
}

pub fn judge_hypot(x: [f64; 2], y: [f64; 2], l: Option<&mut Local>) -> Verdict {
    let args = [x[0].to_bits(), x[1].to_bits(), y[0].to_bits(), y[1].to_bits()];
    if !dd_valid_fast(x[0], x[1]) || !dd_valid_fast(y[0], y[1]) || !in_400(x[0]) || !in_400(y[0]) {
        return Verdict::Skip;
    }
    let r = match api(|| st::mk(x).hypot(st::mk(y))) {
        Ok(r) => [r.hi(), r.lo()],
        Err(m) => return Verdict::fail("no_panic", "hypot", &args, format!("panic: {}", m), "a value".into(), "panic"),
    };
    if !r[0].is_finite() || !r[1].is_finite() {
        return Verdict::fail("hypot: 48u^2", "hypot", &args, show_dd(r), "a finite value".into(), "nonfinite");
    }
    let rb = bfx(r);
    if rb.sign() <= 0 {
        return Verdict::fail("hypot: 48u^2", "hypot", &args, show_dd(r), "a positive value".into(), "wrong_sign");
    }
    let (a, b) = (bfx(x), bfx(y));
    let v = a.mul_exact(&a).add_exact(&b.mul_exact(&b));
    // eps = 48 u^2 = 1.5 * 2^-101: (1 +- eps)^2 bounds, exact
    let one = Bf::from_i64(1);
    let eps = Bf::from_i64(3).mul_pow2(-102);
    let up = one.add_exact(&eps);
    let dn = one.sub_exact(&eps);
    let r2 = rb.mul_exact(&rb);
    let ok = dn.mul_exact(&dn).mul_exact(&v).le(&r2) && r2.le(&up.mul_exact(&up).mul_exact(&v));
    let d = r2.sub_exact(&v).abs();
    let ratio = if d.is_zero() { 0.0 } else { (d.approx_log2() - v.approx_log2() - 1.0 - eps.approx_log2()).exp2() };
    if let Some(l) = l {
        if ratio > 0.02 {
            l.worst("hypot: 48u^2", ratio, || format!("hypot {} {}", show_dd(x), show_dd(y)));
        }
    }
    if !ok {
        return Verdict::fail("hypot: 48u^2", "hypot", &args, show_dd(r), format!("(1-48u^2)^2 (x^2+y^2) <= r^2 <= (1+48u^2)^2 (x^2+y^2); |error|/tolerance ~ {:.4}", ratio), "over_tolerance");
    }
    Verdict::Pass
}

pub fn judge_powi(x: [f64; 2], n: i32, mut l: Option<&mut Local>) -> Verdict {
    let args = [x[0].to_bits(), x[1].to_bits(), n as i64 as u64];
    if !dd_valid_fast(x[0], x[1]) {
        return Verdict::Skip;
    }
    let t = st::mk(x);
    // never panics for any n; all spellings
    let r = match api(|| t.powi(n)) {
        Ok(r) => [r.hi(), r.lo()],
        Err(m) => return Verdict::fail("powi_no_panic", "powi", &args, format!("panic: {}", m), "a value for every i32 exponent".into(), "panic"),
    };
    let same = |a: st::TF| crate::api::canon(a.hi().to_bits()) == crate::api::canon(r[0].to_bits()) && crate::api::canon(a.lo().to_bits()) == crate::api::canon(r[1].to_bits());
    // the num_traits::Pow spellings: whenever one returns different words from powi it is judged by the same value
    // clauses (that the spellings are bit-identical is C10's claim, not this property's)
    let mut cands: Vec<(&'static str, [f64; 2])> = vec![("powi", r)];
    match api(|| (Pow::pow(t, n), if let Ok(m) = i16::try_from(n) { Some(Pow::pow(t, m)) } else { None }, if let Ok(m) = i8::try_from(n) { Some(Pow::pow(t, m)) } else { None }, if let Ok(m) = u16::try_from(n) { Some(Pow::pow(t, m)) } else { None }, if let Ok(m) = u8::try_from(n) { Some(Pow::pow(t, m)) } else { None })) {
        Err(m) => return Verdict::fail("powi_no_panic", "Pow", &args, format!("panic: {}", m), "a value".into(), "panic"),
        Ok((a, b, c, d, e)) => {
            for (nm, v) in [("Pow<i32>", Some(a)), ("Pow<i16>", b), ("Pow<i8>", c), ("Pow<u16>", d), ("Pow<u8>", e)] {
                if let Some(v) = v {
                    if !same(v) {
                        cands.push((nm, [v.hi(), v.lo()]));
                    }
                }
            }
        }
    }
    if n < 0 && n != i32::MIN {
        // powi(x, -m) bit-identical to powi(x, m).recip()
        match api(|| t.powi(-n).recip()) {
            Ok(q) => {
                if !same(q) {
                    return Verdict::fail("powi(x,-n) == powi(x,n).recip()", "powi", &args, show_dd(r), show_dd([q.hi(), q.lo()]), "identity_broken");
                }
            }
            Err(m) => return Verdict::fail("powi_no_panic", "powi", &args, format!("panic in powi(x,{}).recip(): {}", -(n as i64), m), "a value".into(), "panic"),
        }
    }
    for (nm, r) in cands {
        let v = powi_value(nm, x, n, r, &args, l.as_deref_mut());
        if v.is_fail() {
            return v;
        }
    }
    Verdict::Pass
}

/// the value clauses of powi for one observed result `r` (from `powi` or from a `Pow` spelling)
fn powi_value(name: &'static str, x: [f64; 2], n: i32, r: [f64; 2], args: &[u64], l: Option<&mut Local>) -> Verdict {
    let v = bfx(x);
    if n == 0 {
        if v.is_zero() {
            return if is_invalid(r) { Verdict::Pass } else { Verdict::fail("0^0 invalid", name, args, show_dd(r), "NaN".into(), "valid_for_domain_error") };
        }
        return if r[0] == 1.0 && r[1] == 0.0 { Verdict::Pass } else { Verdict::fail("x^0 = 1", name, args, show_dd(r), "1".into(), "wrong_value") };
    }
    if n == 1 {
        return if r[0].to_bits() == x[0].to_bits() && r[1].to_bits() == x[1].to_bits() { Verdict::Pass } else { Verdict::fail("x^1 = x", name, args, show_dd(r), show_dd(x), "wrong_value") };
    }
    if v.is_zero() {
        return Verdict::Pass;
    }
    // accuracy clause: 2^-900 <= |x|^|n| <= 2^900 (decided on the estimate, leaving out a thin strip at the edge)
    let lg = v.approx_log2() * (n as f64).abs();
    if !(lg.abs() <= 899.0) {
        return Verdict::Pass;
    }
    let nn = n as i64;
    judge_tol(
        "powi: (6|n|+16)u^2",
        name,
        args,
        r,
        |p| {
            let e = rf::powi_pt(&v, nn, p + 40);
            let k = 6 * nn.unsigned_abs() + 16;
            let tol = e.abs().mul(&Iv::point(&Bf::from_u64(k)), p).mul_pow2(-106);
            Some((e, tol))
        },
        l,
    )
}

pub fn hist_judge(c: &crate::hist::HCall, l: Option<&mut Local>) -> Verdict {
    use crate::api::Op;
    match c.as_op() {
        Some(Op::sqrt) => judge_sqrt(c.a, l),
        Some(Op::cbrt) => judge_cbrt(c.a, l),
        Some(Op::hypot) => judge_hypot(c.a, c.b, l),
        Some(Op::powi) => judge_powi(c.a, c.b[0] as i32, l),
        _ => Verdict::Skip,
    }
}

pub fn replay(call: &str, _clause: &str, args: &[u64]) -> Verdict {
    if call == "hist" {
        return crate::hist::replay(args, &hist_judge);
    }
    let x = [f64::from_bits(args[0]), f64::from_bits(args[1])];
    match call {
        "sqrt" => judge_sqrt(x, None),
        "cbrt" => judge_cbrt(x, None),
        "hypot" => judge_hypot(x, [f64::from_bits(args[2]), f64::from_bits(args[3])], None),
        _ => judge_powi(x, args[2] as i64 as i32, None),
    }
}

pub fn exponents() -> Vec<i32> {
    let mut ns: Vec<i32> = (-1024..=1024).collect();
    for v in run_bounded(32, 3) {
        ns.push(v as u32 as i32);
    }
    for j in 0..31 {
        for d in [-1i64, 0, 1] {
            let p = (1i64 << j) + d;
            ns.push(p as i32);
            ns.push((-p) as i32);
        }
    }
    ns.push(i32::MIN);
    ns.push(i32::MAX);
    ns.push(i32::MIN + 1);
    ns.sort();
    ns.dedup();
    ns
}

pub fn run(r: &mut Runner) {
    let quick = r.quick();
    let rec = r.recorder();
    // ---- sqrt / cbrt
    let exps: Vec<i32> = if quick { (-900..=899).step_by(9).chain([-900, -899, -2, -1, 0, 1, 2, 3, 898, 899]).collect() } else { (-900..=899).collect() };
    let mut xs = grid(&exps, quick, 51);
    for z in [[0.0, 0.0], [-0.0, 0.0], [0.0, -0.0], [-0.0, -0.0], [-1.0, 0.0], [-2f64.powi(-900), 0.0], [-1e300, 1e280], [4.0, 0.0], [9.0, 0.0], [27.0, 0.0], [-8.0, 0.0], [2.0, 0.0], [1.0, 0.0], [1.0, 2f64.powi(-53)], [1.0, -2f64.powi(-54)]] {
        xs.push(z);
    }
    // perfect squares / cubes of double-doubles: exact roots exist
    for k in 1..=(if quick { 40 } else { 400 }) {
        let q = (k as f64) * 1.0000001;
        xs.push([q * q, 0.0]);
        let s = st::mk([k as f64 + 0.5, 2f64.powi(-60) * k as f64]);
        let s2 = s * s;
        xs.push([s2.hi(), s2.lo()]);
        let s3 = s2 * s;
        xs.push([s3.hi(), s3.lo()]);
        xs.push([-s3.hi(), -s3.lo()]);
    }
    dedup(&mut xs);
    let n = xs.len();
    r.notes.push(format!("sqrt/cbrt: {} operands (exponents -900..899{}, zeros of both signs, negative arguments, exact squares/cubes)", n, if quick { " every 9th" } else { "" }));
    r.add_sample(json!({"call": "sqrt, cbrt", "x": show_dd(xs[n / 2])}));
    r.par("sqrt, cbrt", n.div_ceil(256), n as u64, |c, l| {
        for i in (c * 256)..((c + 1) * 256).min(n) {
            let v = judge_sqrt(xs[i], Some(l));
            rec.record(l, (i * 2) as u64, v);
            let v = judge_cbrt(xs[i], Some(l));
            rec.record(l, (i * 2 + 1) as u64, v);
        }
    });
    // ---- hypot
    let he: Vec<i32> = if quick { vec![-400, -399, -200, -61, -60, -1, 0, 1, 59, 60, 100, 101, 398, 399] } else { (-400..=399).step_by(7).chain([-400, -399, -61, -60, -59, -1, 0, 1, 59, 60, 61, 100, 101, 106, 107, 398, 399]).collect() };
    let hx = grid_thin(&he, if quick { 1 } else { 3 }, 53);
    let nh = hx.len();
    r.notes.push(format!("hypot: all ordered pairs of {} operands over exponents {:?}", nh, he));
    r.par("hypot", nh, (nh * nh) as u64, |i, l| {
        for j in 0..nh {
            let v = judge_hypot(hx[i], hx[j], Some(l));
            rec.record(l, (1u64 << 40) + (i * nh + j) as u64, v);
        }
    });
    // ---- powi
    let ns = exponents();
    let mut bases: Vec<[f64; 2]> = vec![[0.0, 0.0], [-0.0, 0.0], [1.0, 0.0], [-1.0, 0.0], [2.0, 0.0], [-2.0, 0.0], [0.5, 0.0], [10.0, 0.0], [-3.0, 2f64.powi(-54)], [1.5, -2f64.powi(-55)], [core::f64::consts::PI, 1.2246467991473532e-16], [-0.7, 1e-17], [1e-5, 1e-22], [12345.678, 1e-13]];
    let js: Vec<i32> = if quick { vec![1, 2, 5, 10, 20, 24, 29, 30, 31, 32, 40, 52] } else { (1..=52).collect() };
    for j in js {
        for s in [1.0, -1.0] {
            for d in [0.0, 2f64.powi(-52)] {
                let h = 1.0 + s * 2f64.powi(-j) + d;
                bases.push([h, 2f64.powi(-58) * s]);
                bases.push([-h, 2f64.powi(-60)]);
                bases.push([h, 0.0]);
            }
        }
    }
    bases.retain(|w| dd_valid_fast(w[0], w[1]));
    dedup(&mut bases);
    let nb = bases.len();
    let nn = ns.len();
    r.notes.push(format!("powi: {} bases (grid around +-1: 1 +- 2^-j (+ 2^-52), low-word variants; small / generic magnitudes; zeros) x {} exponents (all |n| <= 1024, R_3(32), +-2^j, +-(2^j +- 1), i32::MIN, i32::MIN+1, i32::MAX); accuracy judged when |n log2|x|| <= 899", nb, nn));
    r.add_sample(json!({"call": "powi", "x": show_dd(bases[nb / 2]), "n": ns[nn / 3]}));
    r.par("powi (+ Pow<i8|i16|i32|u8|u16>)", nn, (nn * nb) as u64, |i, l| {
        for (j, b) in bases.iter().enumerate() {
            let v = judge_powi(*b, ns[i], Some(l));
            rec.record(l, (1u64 << 41) + (i * nb + j) as u64, v);
        }
    });
    {
        let org = crate::organic::states(if quick { 1 } else { 2 });
        let no = org.len();
        r.notes.push(format!("organic operands: {} chain states (depth {} from the C01 seeds)", no, if quick { 1 } else { 2 }));
        r.par("organic operands (chain results): sqrt, cbrt, powi", no.div_ceil(128), no as u64, |c, l| {
            for i in (c * 128)..((c + 1) * 128).min(no) {
                let v = judge_sqrt(org[i], Some(l));
                rec.record(l, (1u64 << 60) + (i * 8) as u64, v);
                let v = judge_cbrt(org[i], Some(l));
                rec.record(l, (1u64 << 60) + (i * 8 + 1) as u64, v);
                for (k, n) in [2i32, 3, -2, 7, -13].iter().enumerate() {
                    let v = judge_powi(org[i], *n, Some(l));
                    rec.record(l, (1u64 << 60) + (i * 8 + 2 + k) as u64, v);
                }
            }
        });
    }
    {
        let org: Vec<[f64; 2]> = crate::organic::states(1).into_iter().step_by(if quick { 11 } else { 4 }).collect();
        let no = org.len();
        r.notes.push(format!("organic pairs for hypot: all ordered pairs of {} chain states", no));
        r.par("organic pairs (chain results): hypot", no, (no * no) as u64, |i, l| {
            for j in 0..no {
                let v = judge_hypot(org[i], org[j], Some(l));
                rec.record(l, (1u64 << 59) + (i * no + j) as u64, v);
            }
        });
    }
    {
        let gs = crate::fx::generic_stream(if quick { 30000 } else { 3000000 }, 113, -900, 899);
        let ngs = gs.len();
        r.notes.push(format!("generic stream for sqrt/cbrt: {} operands of a fixed Weyl sequence (full-size mantissas in both words, exponents -900..899)", ngs));
        r.par("generic stream: sqrt/cbrt", ngs.div_ceil(256), ngs as u64, |c, l| {
            for i in (c * 256)..((c + 1) * 256).min(ngs) {
                let v = judge_sqrt([gs[i][0].abs(), if gs[i][0] < 0.0 { -gs[i][1] } else { gs[i][1] }], Some(l));
                rec.record(l, (1u64 << 58) + (i * 2) as u64, v);
                let v = judge_cbrt(gs[i], Some(l));
                rec.record(l, (1u64 << 58) + (i * 2 + 1) as u64, v);
            }
        });
    }
    {
        // double-double neighbourhoods (0..16 ulps and a geometric tail; thorough: 0..80 and tail) of nice values and of
        // their images under every elementary function: pre-images of nice results, where a result may be snapped
        let mut nb = crate::fx::nice_neighbourhoods(quick);
        // every exponent of the stated range with a thin set of fractions and low words, both signs (a rescaling step,
        // an exponent-indexed table or a branch on the exponent field may treat one binade differently)
        if quick {
            let all: Vec<i32> = (-900..=899).collect();
            for w in crate::fx::grid_thin(&all, 1, 413) {
                nb.push(w);
                nb.push([-w[0], -w[1]]);
            }
        }
        // both sides of the end points of the stated ranges and of the documented internal thresholds
        nb.extend(crate::fx::edge_points(&[2f64.powi(-900), 2f64.powi(900), 2f64.powi(-400), 2f64.powi(400)], quick));
        let nn = nb.len();
        r.notes.push(format!("neighbourhoods of nice pre-images: {} operands ({} base points = integers, simple fractions, multiples of pi, e, ln 2, ln 10, sqrt 2, sqrt 3 and their images under every elementary function; offsets in double-double ulps on both sides)", nn, crate::fx::nice_bases().len()));
        r.par("neighbourhoods of nice pre-images", nn.div_ceil(64), nn as u64, |c, l| {
            for i in (c * 64)..((c + 1) * 64).min(nn) {
                let v = judge_sqrt(nb[i], Some(l));
                rec.record(l, (1u64 << 56) + (i * 2) as u64, v);
                let v = judge_cbrt(nb[i], Some(l));
                rec.record(l, (1u64 << 56) + (i * 2 + 1) as u64, v);
            }
        });
    }
    {
        // relational pairs: (x, x), (x, -x), (x, 2x), (x, x/2), (x, neighbours of x), (x, hi(x)), (x, +-1) in both orders
        let xs: Vec<[f64; 2]> = crate::fx::grid(&[-400, -399, -200, -1, 0, 1, 53, 200, 399], quick, 131);
        let ps = crate::fx::relational_pairs(&xs);
        let np = ps.len();
        r.notes.push(format!("relational pairs for hypot: {} pairs from {} operands (x with x, -x, 2x, x/2, its double-double neighbours, its high word, +-1; both argument orders)", np, xs.len()));
        r.par("relational pairs: hypot", np.div_ceil(64), 2 * np as u64, |c, l| {
            for i in (c * 64)..((c + 1) * 64).min(np) {
                let (a, b) = ps[i];
                let v = judge_hypot(a, b, Some(l));
                rec.record(l, (9u64 << 55) + 2 * i as u64, v);
                let v = judge_hypot(b, a, Some(l));
                rec.record(l, (9u64 << 55) + 2 * i as u64 + 1, v);
            }
        });
    }
    {
        // hypot over EVERY exponent of the stated range (a rescaling step may treat one binade differently): for each
        // exponent of the larger leg, legs 0..3 binades apart, generic and Pythagorean mantissas, both orders
        let es: Vec<i32> = (-400..=399).collect();
        r.notes.push("hypot at every exponent -400..399 of the larger leg x leg-exponent offsets {0, 1, 2, 3, 30} x 4 mantissa pairs (3:4, generic Weyl) x low words x both orders".to_string());
        r.par("hypot: every exponent", es.len(), (es.len() * 5 * 4 * 2) as u64, |c, l| {
            let e = es[c];
            let mut i = 0u64;
            for d in [0, 1, 2, 3, 30] {
                if e - d < -400 {
                    continue;
                }
                for (fa, fb) in [(1.5, 1.0), (1.25, 1.5), (1.9375, 1.0625), (1.0 + 0.6180339887498949, 1.0 + 0.41421356237309515)] {
                    let a = [fa * 2f64.powi(e), fa * 2f64.powi(e - 54) * 0.7];
                    let b = [fb * 2f64.powi(e - d), -fb * 2f64.powi(e - d - 55) * 0.9];
                    if !(dd_valid_fast(a[0], a[1]) && dd_valid_fast(b[0], b[1])) {
                        continue;
                    }
                    for (x, y) in [(a, b), (b, a), ([a[0], 0.0], [b[0], 0.0])] {
                        let v = judge_hypot(x, y, Some(l));
                        rec.record(l, (11u64 << 55) + ((c as u64) << 12) + i, v);
                        i += 1;
                    }
                }
            }
        });
        // and a generic stream of leg pairs (full mantissas in all four words, exponent offset -3..3)
        let n: u64 = if quick { 60_000 } else { 6_000_000 };
        r.notes.push(format!("generic stream for hypot: {} leg pairs of a fixed Weyl sequence over exponents -400..399, leg-exponent offset -3..3", n));
        r.par("generic stream: hypot", (n / 4096) as usize + 1, n, |c, l| {
            for i in (c as u64 * 4096)..((c as u64 + 1) * 4096).min(n) {
                let a = match tfref::alpha::generic_dd(i, 1301, -400 + 3, 399 - 3) {
                    Some(a) => a,
                    None => continue,
                };
                let ea = crate::grid::exp_of(a[0]);
                let d = (i % 7) as i32 - 3;
                if let Some(b) = tfref::alpha::generic_dd(i, 1302 + (i % 5), ea + d, ea + d) {
                    let v = judge_hypot(a, b, Some(l));
                    rec.record(l, (12u64 << 55) + i, v);
                }
            }
        });
    }
    {
        use crate::api::Op;
        use crate::hist::HCall;
        let mut groups = crate::hist::unary_groups(&[Op::sqrt, Op::cbrt], &[[2.0, 1e-17], [9.0, 0.0], [0.3, -1e-18]], [5.0, 0.0]);
        groups.extend(crate::hist::binary_groups(&[Op::hypot], &[([3.0, 1e-17], [4.0, 0.0]), ([1.0, 0.0], [1.0, 1e-17])]));
        // the same base raised to exponents of different bit lengths and signs, and its negation
        for x in [[3.0, 0.0], [1.5, 1e-17], [-2.0, 0.0], [0.75, -3e-18]] {
            let mut g = vec![];
            for n in [2.0, 5.0, 100.0, -2.0, -9.0, 1000.0] {
                g.push(HCall::op(Op::powi, x, [n, 0.0]));
            }
            g.push(HCall::op(Op::powi, [-x[0], -x[1]], [3.0, 0.0]));
            groups.push(g);
        }
        crate::hist::explore(r, "histories: sqrt/cbrt/hypot/powi", &groups, 3, &hist_judge, 14u64 << 55);
        // cross-family histories: the same judged calls, preceded by every other public function on the same operands
        crate::hist::explore_mixed(r, "cross-family histories: any public call, then sqrt/cbrt/hypot/powi", &groups, 2, &hist_judge, (14u64 << 55) + (1u64 << 53));
    }
}
