//! C02 — two-word constructors are error-free transformations.
use crate::api::st;
use crate::run::{api, Local, Runner, Verdict};
use crate::util::{hexf, show_dd};
use serde_json::json;
use tfref::alpha::{gen_fracs, mk_f64, mk_subnormal, run_bounded, weyl_fracs};
use tfref::big::Dy;

const LIM1023: f64 = 8.98846567431158e307; // 2^1023

fn in_range_1023(x: f64) -> bool {
    x.is_finite() && x.abs() < LIM1023
}

/// judge one constructor call. op: 0 add, 1 sub, 2 mul, 3 div, 4 from
pub fn judge(op: u8, a: f64, b: f64, l: Option<&mut Local>) -> Verdict {
    let args = [a.to_bits(), b.to_bits()];
    let name = ["new_add", "new_sub", "new_mul", "new_div", "from_f64"][op as usize];
    let r = api(|| match op {
        0 => st::TF::new_add(a, b),
        1 => st::TF::new_sub(a, b),
        2 => st::TF::new_mul(a, b),
        3 => st::TF::new_div(a, b),
        _ => st::TF::from(a),
    });
    let r = match r {
        Ok(r) => [r.hi(), r.lo()],
        Err(m) => return Verdict::fail(name, name, &args, format!("panic: {}", m), "a value".into(), "panic"),
    };
    match op {
        0 | 1 => {
            if !in_range_1023(a) || !in_range_1023(b) {
                return Verdict::Skip;
            }
            let s = if op == 0 { Dy::from_f64(a).add_f64(b) } else { Dy::from_f64(a).sub_f64(b) };
            let want_hi = s.to_f64_rn().0;
            if !r[0].is_finite() || !r[1].is_finite() {
                return Verdict::fail(name, name, &args, show_dd(r), format!("hi = {} and hi+lo exact", hexf(want_hi)), "nonfinite");
            }
            if r[0] != want_hi {
                return Verdict::fail(name, name, &args, show_dd(r), format!("hi == RN(a±b) = {}", hexf(want_hi)), "hi_not_rn");
            }
            if !Dy::from_dd(r[0], r[1]).eq(&s) {
                return Verdict::fail(name, name, &args, show_dd(r), "hi + lo == a ± b exactly".into(), "not_error_free");
            }
            Verdict::Pass
        }
        2 => {
            if !a.is_finite() || !b.is_finite() {
                return Verdict::Skip;
            }
            let p = Dy::prod_f64(a, b);
            let inr = p.is_zero() || (p.msb().unwrap() >= -960 && p.msb().unwrap() < 1023);
            if !inr {
                return Verdict::Skip;
            }
            let want_hi = p.to_f64_rn().0;
            if !r[0].is_finite() || !r[1].is_finite() {
                return Verdict::fail(name, name, &args, show_dd(r), format!("hi = {} and hi+lo exact", hexf(want_hi)), "nonfinite");
            }
            if r[0] != want_hi {
                return Verdict::fail(name, name, &args, show_dd(r), format!("hi == RN(a*b) = {}", hexf(want_hi)), "hi_not_rn");
            }
            if !Dy::from_dd(r[0], r[1]).eq(&p) {
                return Verdict::fail(name, name, &args, show_dd(r), "hi + lo == a * b exactly".into(), "not_error_free");
            }
            Verdict::Pass
        }
        3 => {
            let lim = |x: f64| x.is_finite() && x.abs() >= 2f64.powi(-480) && x.abs() <= 2f64.powi(480);
            if !lim(a) || !lim(b) {
                return Verdict::Skip;
            }
            if !r[0].is_finite() || !r[1].is_finite() {
                return Verdict::fail(name, name, &args, show_dd(r), "finite quotient".into(), "nonfinite");
            }
            let da = Dy::from_f64(a);
            let db = Dy::from_f64(b);
            // hi within one ulp of a/b:  |hi*b - a| <= 2^-52 * max(|hi*b|, |a|)
            let hb = Dy::from_f64(r[0]).mul(&db);
            let e1 = hb.sub(&da);
            let m = if hb.cmp_abs(&da) == core::cmp::Ordering::Greater { hb.clone() } else { da.clone() };
            let (ok1, _) = e1.within(1, -52, &m);
            if !ok1 {
                return Verdict::fail("new_div_hi", name, &args, show_dd(r), "hi within one ulp of a/b".into(), "hi_off");
            }
            // |(hi+lo)*b - a| <= 3 * 2^-106 * |a|
            let e2 = Dy::from_dd(r[0], r[1]).mul(&db).sub(&da);
            let (ok2, ratio) = e2.within(3, -106, &da);
            if let Some(l) = l {
                l.worst("new_div: |(hi+lo)b-a| / (3u^2|a|)", ratio, || format!("new_div({}, {})", hexf(a), hexf(b)));
            }
            if !ok2 {
                return Verdict::fail("new_div_sum", name, &args, show_dd(r), format!("|(hi+lo) - a/b| <= 3*2^-106 |a/b| (ratio {:.4})", ratio), "over_bound");
            }
            Verdict::Pass
        }
        _ => {
            // From<f64>: words (x, 0)
            if !a.is_finite() {
                return Verdict::Skip;
            }
            if r[0].to_bits() != a.to_bits() || r[1] != 0.0 {
                return Verdict::fail("from_f64", name, &args, show_dd(r), format!("({}, 0)", hexf(a)), "not_exact");
            }
            let c = st::TF::from_f64(a);
            if c.hi().to_bits() != a.to_bits() || c.lo() != 0.0 {
                return Verdict::fail("from_f64", "TwoFloat::from_f64", &args, show_dd([c.hi(), c.lo()]), format!("({}, 0)", hexf(a)), "not_exact");
            }
            Verdict::Pass
        }
    }
}

pub fn hist_judge(c: &crate::hist::HCall, l: Option<&mut Local>) -> Verdict {
    use crate::api::Op;
    let k = match c.as_op() {
        Some(Op::new_add) => 0,
        Some(Op::new_sub) => 1,
        Some(Op::new_mul) => 2,
        Some(Op::new_div) => 3,
        Some(Op::from_f64) => 4,
        _ => return Verdict::Skip,
    };
    judge(k, c.a[0], c.b[0], l)
}

pub fn replay(call: &str, _clause: &str, args: &[u64]) -> Verdict {
    if call == "hist" {
        return crate::hist::replay(args, &hist_judge);
    }
    let op = match call {
        "new_add" => 0,
        "new_sub" => 1,
        "new_mul" => 2,
        "new_div" => 3,
        _ => 4,
    };
    judge(op, f64::from_bits(args[0]), f64::from_bits(args[1]), None)
}

pub fn run(r: &mut Runner) {
    let quick = r.quick();
    let mut fr_a: Vec<u64> = run_bounded(52, if quick { 2 } else { 3 });
    fr_a.extend(gen_fracs(8));
    fr_a.extend(weyl_fracs(if quick { 24 } else { 64 }, 1));
    let mut fr_b: Vec<u64> = run_bounded(52, 2);
    fr_b.extend(gen_fracs(8));
    fr_b.extend(weyl_fracs(if quick { 24 } else { 64 }, 2));
    // exponent classes of a: subnormal (code -2000), then normal exponents
    let ea: Vec<i32> = vec![-2000, -1022, -1021, -970, -512, -481, -480, -1, 0, 1, 479, 480, 511, 969, 1021, 1022];
    let mut deltas: Vec<i32> = (-60..=60).collect();
    for d in [100, 500, 1000, 1500, 2000] {
        deltas.push(d);
        deltas.push(-d);
    }
    let mkset = |e: i32, fr: &Vec<u64>| -> Vec<f64> {
        let mut v = Vec::new();
        if e == -2000 || e < -1022 {
            for &f in fr {
                if f != 0 {
                    v.push(mk_subnormal(false, f));
                    v.push(mk_subnormal(true, f));
                }
            }
            v.push(0.0);
            v.push(-0.0);
        } else if e <= 1023 {
            for &f in fr {
                v.push(mk_f64(false, e, f).unwrap());
                v.push(mk_f64(true, e, f).unwrap());
            }
        }
        v
    };
    r.notes.push(format!("a fractions: {} (R_k(52) + 8 constants + Weyl), b fractions: {}; a exponent classes {:?}; exponent offsets {} values", fr_a.len(), fr_b.len(), ea, deltas.len()));
    let nd = deltas.len();
    let rec = r.recorder();
    let per = (2 * fr_a.len() + 2) as u64 * (2 * fr_b.len() + 2) as u64 * 5;
    let states = std::sync::atomic::AtomicU64::new(0);
    r.par("ctor-pairs", ea.len() * nd, 0, |c, l| {
        let e = ea[c / nd];
        let d = deltas[c % nd];
        let eb = if e == -2000 { -1022 + d } else { e + d };
        // b exponent below the normal range maps to the subnormal class exactly once (d == -1 from -1022 etc.)
        let ebc = if eb < -1022 {
            if eb == -1023 || (e == -2000 && d == -1) {
                -2000
            } else {
                return;
            }
        } else if eb > 1023 {
            return;
        } else {
            eb
        };
        let av = mkset(e, &fr_a);
        let bv = mkset(ebc, &fr_b);
        let mut i = (c as u64) * per;
        let mut n = 0u64;
        for &a in &av {
            for &b in &bv {
                for op in 0..4u8 {
                    let v = judge(op, a, b, Some(l));
                    rec.record(l, i, v);
                    i += 1;
                }
                n += 1;
            }
            let v = judge(4, a, 0.0, None);
            rec.record(l, i, v);
            i += 1;
        }
        states.fetch_add(n, std::sync::atomic::Ordering::Relaxed);
    });
    r.states += states.into_inner();
    // ---- every exponent of one operand (2098 positions, subnormals included); the other operand placed
    //      relative to it so that sums cancel / products and quotients land in and around the claimed ranges
    let mut fr_s = run_bounded(52, 2);
    fr_s.extend(gen_fracs(2));
    let fr_t: Vec<u64> = vec![0, 1, (1u64 << 52) - 1, 1u64 << 51, gen_fracs(1)[0], weyl_fracs(1, 33)[0]];
    let all_e: Vec<i32> = (-1075..=1023).collect();
    r.notes.push(format!("all-exponent sweep: a over all exponents -1074..1023 x {} fractions x 2 signs; b = {} fractions at exponents {{-e_a-959, -e_a-900, -e_a-1, -e_a, -e_a+1, -e_a+1000, 0, e_a-1, e_a, e_a+1, e_a-53}}", fr_s.len(), fr_t.len()));
    r.par("all-exponent sweep", all_e.len(), (all_e.len() * fr_s.len() * 2 * fr_t.len() * 11) as u64, |c, l| {
        let e = all_e[c];
        let mut i = 0u64;
        for &f in &fr_s {
            for s in [false, true] {
                let a = if e >= -1022 { mk_f64(s, e, f).unwrap() } else if e == -1023 { mk_subnormal(s, f.max(1)) } else if e == -1074 { mk_subnormal(s, 1) } else { mk_subnormal(s, (f >> 20).max(1)) };
                let ea = crate::grid::exp_of(a);
                for t in [-ea - 959, -ea - 900, -ea - 1, -ea, -ea + 1, -ea + 1000, 0, ea - 1, ea, ea + 1, ea - 53] {
                    if !(-1022..=1023).contains(&t) {
                        continue;
                    }
                    for &g in &fr_t {
                        for sb in [false, true] {
                            let b = mk_f64(sb, t, g).unwrap();
                            for op in 0..4u8 {
                                let v = judge(op, a, b, Some(l));
                                rec.record(l, (1u64 << 50) + ((c as u64) << 26) + i, v);
                                i += 1;
                                let v = judge(op, b, a, Some(l));
                                rec.record(l, (1u64 << 50) + ((c as u64) << 26) + i, v);
                                i += 1;
                            }
                        }
                    }
                }
            }
        }
    });
    r.add_sample(json!({"call": "new_add", "a": hexf(mk_f64(false, 0, fr_a[3]).unwrap()), "b": hexf(mk_f64(true, -7, fr_b[5]).unwrap())}));
    r.add_sample(json!({"call": "new_mul", "a": hexf(mk_subnormal(false, fr_a[9])), "b": hexf(mk_f64(true, 1000, fr_b[5]).unwrap())}));
    {
        use crate::api::Op;
        use crate::hist::HCall;
        let mut groups: Vec<Vec<HCall>> = vec![];
        for (a, b) in [(1.5, 1e-17), (3.0, 7.0), (1e300, -1e284), (0.1, 0.3)] {
            let mut g = vec![];
            for op in [Op::new_add, Op::new_sub, Op::new_mul, Op::new_div] {
                g.push(HCall::op(op, [a, 0.0], [b, 0.0]));
                g.push(HCall::op(op, [b, 0.0], [a, 0.0]));
            }
            g.push(HCall::op(Op::new_add, [a, 0.0], [-b, 0.0]));
            groups.push(g);
        }
        crate::hist::explore(r, "histories: two-word constructors (operand orders, signs)", &groups, 3, &hist_judge, 1u64 << 62);
    }
}
