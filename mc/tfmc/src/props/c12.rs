//! C12 — published constants are correctly rounded double-doubles; angle conversions.
use crate::api::st;
use crate::fx::{bfx, grid, judge_tol, words};
use crate::run::{api, Runner, Verdict};
use crate::util::{hexf, show_dd};
use serde_json::json;
use st::TF;
use tfref::bf::{Bf, Iv};
use tfref::big::{dd_valid, Dy};
use tfref::rf;

fn const_table() -> Vec<(&'static str, TF, TF, fn(u64) -> Iv)> {
    use num_traits::FloatConst as K;
    use twofloat::consts as c;
    fn one(p: u64) -> Iv {
        let _ = p;
        Iv::from_i64(1)
    }
    vec![
        ("E", c::E, <TF as K>::E(), |p| rf::exp_pt(&Bf::from_i64(1), p)),
        ("FRAC_1_PI", c::FRAC_1_PI, <TF as K>::FRAC_1_PI(), |p| one(p).div(&rf::pi(p + 8), p)),
        ("FRAC_2_PI", c::FRAC_2_PI, <TF as K>::FRAC_2_PI(), |p| Iv::from_i64(2).div(&rf::pi(p + 8), p)),
        ("FRAC_2_SQRT_PI", c::FRAC_2_SQRT_PI, <TF as K>::FRAC_2_SQRT_PI(), |p| Iv::from_i64(2).div(&rf::pi(p + 16).sqrt(p + 8), p)),
        ("FRAC_1_SQRT_2", c::FRAC_1_SQRT_2, <TF as K>::FRAC_1_SQRT_2(), |p| one(p).div(&Iv::from_i64(2).sqrt(p + 8), p)),
        ("FRAC_PI_2", c::FRAC_PI_2, <TF as K>::FRAC_PI_2(), |p| rf::pi(p).mul_pow2(-1)),
        ("FRAC_PI_3", c::FRAC_PI_3, <TF as K>::FRAC_PI_3(), |p| rf::pi(p + 8).div_small(3, p)),
        ("FRAC_PI_4", c::FRAC_PI_4, <TF as K>::FRAC_PI_4(), |p| rf::pi(p).mul_pow2(-2)),
        ("FRAC_PI_6", c::FRAC_PI_6, <TF as K>::FRAC_PI_6(), |p| rf::pi(p + 8).div_small(6, p)),
        ("FRAC_PI_8", c::FRAC_PI_8, <TF as K>::FRAC_PI_8(), |p| rf::pi(p).mul_pow2(-3)),
        ("LN_2", c::LN_2, <TF as K>::LN_2(), |p| rf::ln2(p)),
        ("LN_10", c::LN_10, <TF as K>::LN_10(), |p| rf::ln10(p)),
        ("LOG2_E", c::LOG2_E, <TF as K>::LOG2_E(), |p| one(p).div(&rf::ln2(p + 8), p)),
        ("LOG10_E", c::LOG10_E, <TF as K>::LOG10_E(), |p| one(p).div(&rf::ln10(p + 8), p)),
        ("LOG10_2", c::LOG10_2, <TF as K>::LOG10_2(), |p| rf::ln2(p + 8).div(&rf::ln10(p + 8), p)),
        ("LOG2_10", c::LOG2_10, <TF as K>::LOG2_10(), |p| rf::ln10(p + 8).div(&rf::ln2(p + 8), p)),
        ("PI", c::PI, <TF as K>::PI(), |p| rf::pi(p)),
        ("SQRT_2", c::SQRT_2, <TF as K>::SQRT_2(), |p| Iv::from_i64(2).sqrt(p)),
        ("TAU", c::TAU, <TF as K>::TAU(), |p| rf::pi(p).mul_pow2(1)),
    ]
}

pub fn judge_const(i: usize) -> Verdict {
    let t = const_table();
    let (name, c, acc, f) = &t[i];
    let w = [c.hi(), c.lo()];
    let args = [i as u64];
    if c.hi().to_bits() != acc.hi().to_bits() || c.lo().to_bits() != acc.lo().to_bits() {
        return Verdict::fail("floatconst_accessor", "const", &args, format!("FloatConst::{} = {}", name, show_dd([acc.hi(), acc.lo()])), show_dd(w), "accessor_differs");
    }
    // correctly rounded double-double of the enclosure: both ends must round to the same pair
    let v = f(640);
    let lo = v.lo.to_dy().to_dd_rn().unwrap();
    let hi = v.hi.to_dy().to_dd_rn().unwrap();
    assert!(lo.0.to_bits() == hi.0.to_bits() && lo.1.to_bits() == hi.1.to_bits(), "constant {}: enclosure straddles a rounding boundary", name);
    if w[0].to_bits() != lo.0.to_bits() || w[1].to_bits() != lo.1.to_bits() {
        return Verdict::fail("correctly_rounded", "const", &args, format!("{} = {}", name, show_dd(w)), format!("hi = RN(c), lo = RN(c - hi): {}", show_dd([lo.0, lo.1])), "not_correctly_rounded");
    }
    if !dd_valid(w[0], w[1]) {
        return Verdict::fail("const_valid", "const", &args, format!("{} = {}", name, show_dd(w)), "valid".into(), "invalid_result");
    }
    Verdict::Pass
}

pub fn judge_assoc() -> Verdict {
    let args: [u64; 0] = [];
    // MAX: largest finite valid value: high word f64::MAX, low word the largest f64 with RN(MAX + lo) == MAX
    let mut lo = 2f64.powi(970); // half an ulp of f64::MAX: the tie rounds to infinity
    while !(f64::MAX + lo == f64::MAX && (f64::MAX + lo).is_finite()) {
        lo = crate::util::next_down(lo);
    }
    assert!(dd_valid(f64::MAX, lo) && !tfref::big::dd_valid_fast(f64::MAX, crate::util::next_up(lo)));
    // exact cross-check of the search
    assert!(Dy::from_dd(f64::MAX, crate::util::next_up(lo)).to_f64_rn().0.is_infinite());
    let mx = TF::MAX;
    let mn = TF::MIN;
    if mx.hi().to_bits() != f64::MAX.to_bits() || mx.lo().to_bits() != lo.to_bits() || !mx.is_valid() {
        return Verdict::fail("MAX", "assoc", &args, show_dd([mx.hi(), mx.lo()]), format!("largest finite valid value ({}, {})", hexf(f64::MAX), hexf(lo)), "wrong_constant");
    }
    if mn.hi().to_bits() != (-f64::MAX).to_bits() || mn.lo().to_bits() != (-lo).to_bits() || !mn.is_valid() {
        return Verdict::fail("MIN", "assoc", &args, show_dd([mn.hi(), mn.lo()]), format!("smallest finite valid value ({}, {})", hexf(-f64::MAX), hexf(-lo)), "wrong_constant");
    }
    // ... "largest / smallest finite values for which is_valid() can hold": nothing beyond them is accepted as valid,
    // neither by is_valid() nor by the checked constructors
    {
        use core::convert::TryFrom;
        for beyond in [crate::util::next_up(lo), 2f64.powi(970), 2f64.powi(971), 1e300, f64::MAX] {
            for s in [1.0, -1.0] {
                let w = [s * f64::MAX, s * beyond];
                let v = crate::api::st::mk(w);
                let accepted = v.is_valid() || TF::try_from((w[0], w[1])).is_ok() || TF::try_from(w).is_ok() || twofloat::no_overlap(w[0], w[1]);
                if accepted {
                    return Verdict::fail(if s > 0.0 { "MAX" } else { "MIN" }, "assoc", &args, format!("{} is accepted as valid (is_valid / try_from / no_overlap)", show_dd(w)), "no valid value beyond MAX / MIN".into(), "wrong_constant");
                }
            }
        }
    }
    let mp = TF::MIN_POSITIVE;
    if !(mp.hi() == f64::MIN_POSITIVE && mp.lo() == 0.0) {
        return Verdict::fail("MIN_POSITIVE", "assoc", &args, show_dd([mp.hi(), mp.lo()]), "2^-1022".into(), "wrong_constant");
    }
    let nan = TF::NAN;
    #[allow(clippy::eq_op)]
    if nan == nan || !(nan != nan) {
        return Verdict::fail("NAN", "assoc", &args, "NAN == NAN".into(), "NAN compares unequal to itself".into(), "wrong_constant");
    }
    // ... under the ordering comparison as well: a comparison that answers Equal (hence <= and >= both true) says "equal"
    #[allow(clippy::eq_op)]
    if nan.partial_cmp(&nan) == Some(core::cmp::Ordering::Equal) || (nan <= nan && nan >= nan) {
        return Verdict::fail("NAN", "assoc", &args, format!("NAN.partial_cmp(&NAN) = {:?}, NAN <= NAN: {}, NAN >= NAN: {}", nan.partial_cmp(&nan), nan <= nan, nan >= nan), "NAN compares unequal to itself".into(), "wrong_constant");
    }
    if TF::INFINITY.is_valid() || TF::NEG_INFINITY.is_valid() {
        return Verdict::fail("INFINITY", "assoc", &args, "is_valid() == true".into(), "INFINITY / NEG_INFINITY are not valid".into(), "wrong_constant");
    }
    Verdict::Pass
}

/// call 0 = to_degrees, 1 = to_radians
pub fn judge_angle(call: usize, x: [f64; 2], l: Option<&mut crate::run::Local>) -> Verdict {
    let name = ["to_degrees", "to_radians"][call];
    let args = words(x);
    if !(x[0].is_finite() && x[0].abs() >= 2f64.powi(-450) && x[0].abs() <= 2f64.powi(450)) || !tfref::big::dd_valid_fast(x[0], x[1]) {
        return Verdict::Skip;
    }
    let t = st::mk(x);
    let r = match api(|| if call == 0 { t.to_degrees() } else { t.to_radians() }) {
        Ok(r) => [r.hi(), r.lo()],
        Err(m) => return Verdict::fail("no_panic", name, &args, format!("panic: {}", m), "a value".into(), "panic"),
    };
    // the trait spellings of the two conversions: whenever one returns different words it is judged by the same
    // tolerance (that the spellings are bit-identical is C10's claim, not this property's)
    let mut cands: Vec<(&'static str, [f64; 2])> = vec![(name, r)];
    match api(|| if call == 0 { (<TF as num_traits::Float>::to_degrees(t), <TF as num_traits::float::FloatCore>::to_degrees(t)) } else { (<TF as num_traits::Float>::to_radians(t), <TF as num_traits::float::FloatCore>::to_radians(t)) }) {
        Ok((a, b)) => {
            for (nm, v) in [(["Float::to_degrees", "Float::to_radians"][call], a), (["FloatCore::to_degrees", "FloatCore::to_radians"][call], b)] {
                if v.hi().to_bits() != r[0].to_bits() || v.lo().to_bits() != r[1].to_bits() {
                    cands.push((nm, [v.hi(), v.lo()]));
                }
            }
        }
        Err(m) => return Verdict::fail("no_panic", name, &args, format!("panic in a trait spelling: {}", m), "a value".into(), "panic"),
    }
    let xb = bfx(x);
    let mut l = l;
    for (nm, r) in cands {
        let v = judge_tol(
            "angle: 6u^2",
            nm,
            &args,
            r,
            |p| {
                let xi = Iv::from_exact(&xb, p + 8);
                let e = if call == 0 { xi.mul_small(180, p + 8).div(&rf::pi(p + 8), p) } else { xi.mul(&rf::pi(p + 8), p + 8).div_small(180, p) };
                let tol = e.abs().mul_small(6, p).mul_pow2(-106);
                Some((e, tol))
            },
            l.as_deref_mut(),
        );
        if v.is_fail() {
            return v;
        }
    }
    Verdict::Pass
}

pub fn hist_judge(c: &crate::hist::HCall, l: Option<&mut crate::run::Local>) -> Verdict {
    use crate::api::Op;
    match c.as_op() {
        Some(Op::to_degrees) => judge_angle(0, c.a, l),
        Some(Op::to_radians) => judge_angle(1, c.a, l),
        _ => Verdict::Skip,
    }
}

pub fn replay(call: &str, _clause: &str, args: &[u64]) -> Verdict {
    if call == "hist" {
        return crate::hist::replay(args, &hist_judge);
    }
    match call {
        "const" => judge_const(args[0] as usize),
        "assoc" => judge_assoc(),
        "to_degrees" | "Float::to_degrees" | "FloatCore::to_degrees" => judge_angle(0, [f64::from_bits(args[0]), f64::from_bits(args[1])], None),
        _ => judge_angle(1, [f64::from_bits(args[0]), f64::from_bits(args[1])], None),
    }
}

pub fn run(r: &mut Runner) {
    let quick = r.quick();
    let rec = r.recorder();
    let n = const_table().len();
    assert_eq!(n, 19);
    r.par("19 constants + FloatConst accessors (complete finite set)", n, n as u64, |c, l| {
        rec.record(l, c as u64, judge_const(c));
    });
    r.par("MAX, MIN, MIN_POSITIVE, NAN, INFINITY, NEG_INFINITY", 1, 6, |_, l| {
        l.transitions += 5;
        rec.record(l, 100, judge_assoc());
    });
    r.add_sample(json!({"constant": "PI", "words": show_dd([twofloat::consts::PI.hi(), twofloat::consts::PI.lo()]), "reference": "Machin series enclosure at 640 bits, both ends round to the same double-double"}));
    let exps: Vec<i32> = if quick { vec![-450, -449, -100, -8, -7, -1, 0, 1, 5, 6, 7, 8, 100, 448, 449] } else { (-450..=449).collect() };
    let mut xs = grid(&exps, quick, 41);
    if quick {
        // every exponent of the stated range with a thin set of fractions and low words (a rescaling step may treat one
        // binade differently); the thorough tier has the full grid on every exponent
        let all: Vec<i32> = (-450..=449).collect();
        xs.extend(crate::fx::grid_thin(&all, 2, 43));
    }
    let nx = xs.len();
    r.notes.push(format!("angle conversions: {} valid operands over exponents {:?}..", nx, &exps[..exps.len().min(6)]));
    r.add_sample(json!({"call": "to_degrees", "x": show_dd(xs[nx / 2])}));
    r.par("to_degrees / to_radians", nx.div_ceil(64), nx as u64, |c, l| {
        for i in (c * 64)..((c + 1) * 64).min(nx) {
            for call in 0..2 {
                let v = judge_angle(call, xs[i], Some(l));
                rec.record(l, 1000 + (i * 2 + call) as u64, v);
            }
        }
    });
    {
        // double-double neighbourhoods of the pre-images of "nice" results: k·π/180 (whole, half and quarter
        // degrees) and r·180/π (whole and quarter radians), and of the nice arguments themselves
        let ks: Vec<i64> = if quick { (1..=360).chain([450, 540, 720, 1080, 3600, 12345678, 1 << 20, (1 << 31) - 1, (1 << 52) + 1]).collect() } else { (1..=3600).chain([12345678, 1 << 20, (1 << 31) - 1, (1 << 40) + 1, (1 << 52) + 1]).collect() };
        let js = crate::fx::ulp_offsets();
        let mut bases: Vec<[f64; 2]> = vec![];
        let pi = rf::pi(320);
        for &k in &ks {
            for q in [1u64, 2, 4] {
                if q > 1 && (k > 64 || k % 2 == 0) {
                    continue;
                }
                let kk = Iv::from_i64(k).div_small(q, 320);
                bases.extend(crate::fx::dd_of(&kk.mul(&pi, 320).div_small(180, 320)));
                bases.extend(crate::fx::dd_of(&kk.mul_small(180, 320).div(&pi, 320)));
                bases.push([k as f64 / q as f64, 0.0]);
            }
        }
        for c in const_table() {
            bases.push([c.1.hi(), c.1.lo()]);
        }
        let mut nb: Vec<[f64; 2]> = vec![];
        for b in &bases {
            for x in crate::fx::neighbourhood(*b, &js) {
                nb.push(x);
                nb.push([-x[0], -x[1]]);
            }
        }
        nb.extend(crate::fx::edge_points(&[2f64.powi(-450), 2f64.powi(450)], quick));
        let nn = nb.len();
        r.notes.push(format!("neighbourhoods: {} base points (k·π/180, r·180/π, whole numbers, the 19 constants) x offsets of 0..80 and 96..2^40 double-double ulps x both sides x both signs = {} operands", bases.len(), nn));
        r.add_sample(json!({"call": "to_degrees", "x": show_dd(nb[nn / 3]), "family": "neighbourhood of a nice pre-image"}));
        r.par("neighbourhoods of nice pre-images", nn.div_ceil(256), nn as u64, |c, l| {
            for i in (c * 256)..((c + 1) * 256).min(nn) {
                for call in 0..2 {
                    let v = judge_angle(call, nb[i], Some(l));
                    rec.record(l, (1u64 << 56) + (i * 2 + call) as u64, v);
                }
            }
        });
    }
    {
        let org = crate::organic::states(if quick { 1 } else { 2 });
        let no = org.len();
        r.notes.push(format!("organic operands: {} chain states (depth {} from the C01 seeds)", no, if quick { 1 } else { 2 }));
        r.par("organic operands (chain results)", no.div_ceil(256), no as u64, |c, l| {
            for i in (c * 256)..((c + 1) * 256).min(no) {
                for call in 0..2 {
                    let v = judge_angle(call, org[i], Some(l));
                    rec.record(l, (1u64 << 60) + (i * 2 + call) as u64, v);
                }
            }
        });
    }
    {
        let gs = crate::fx::generic_stream(if quick { 20000 } else { 2000000 }, 112, -450, 449);
        let ngs = gs.len();
        r.notes.push(format!("generic stream for to_degrees/to_radians: {} operands of a fixed Weyl sequence (full-size mantissas in both words, exponents -450..449)", ngs));
        r.par("generic stream: to_degrees/to_radians", ngs.div_ceil(256), ngs as u64, |c, l| {
            for i in (c * 256)..((c + 1) * 256).min(ngs) {
                for call in 0..2 {
                    let v = judge_angle(call, gs[i], Some(l));
                    rec.record(l, (1u64 << 58) + (i * 2 + call) as u64, v);
                }
            }
        });
    }
    {
        use crate::api::Op;
        let bases: Vec<[f64; 2]> = vec![[1.0471975511965976, 1.1102230246251565e-16], [45.0, 2f64.powi(-61)], [30.0, 0.0], [90.0, 2f64.powi(-60)], [1e-3, 1e-20], [12345.678, 0.0]];
        let groups = crate::hist::unary_groups(&[Op::to_degrees, Op::to_radians], &bases, [2.0, 0.0]);
        crate::hist::explore(r, "histories: to_degrees/to_radians", &groups, 3, &hist_judge, 14u64 << 55);
        // cross-family histories: the same judged calls, preceded by every other public function on the same operands
        crate::hist::explore_mixed(r, "cross-family histories: any public call, then to_degrees/to_radians", &groups, 2, &hist_judge, (14u64 << 55) + (1u64 << 53));
    }
}
