//! C17 — asin, acos, atan, atan2: accuracy floors, branch conventions, domain.
use crate::api::{canon, st};
use crate::fx::{bfx, dense_exps, grid, grid_thin, is_invalid, judge_tol, words};
use crate::grid::{dedup, with_los};
use crate::run::{api, Local, Runner, Verdict};
use crate::util::{next_down, next_up, show_dd};
use serde_json::json;
use tfref::bf::{Bf, Iv};
use tfref::big::dd_valid_fast;
use tfref::rf;

/// call 0 asin, 1 acos, 2 atan
pub fn judge1(call: usize, x: [f64; 2], mut l: Option<&mut Local>) -> Verdict {
    let name = ["asin", "acos", "atan"][call];
    let args = words(x);
    if !dd_valid_fast(x[0], x[1]) {
        return Verdict::Skip;
    }
    let t = st::mk(x);
    let r = match api(|| match call {
        0 => t.asin(),
        1 => t.acos(),
        _ => t.atan(),
    }) {
        Ok(r) => [r.hi(), r.lo()],
        Err(m) => return Verdict::fail("no_panic", name, &args, format!("panic: {}", m), "a value".into(), "panic"),
    };
    let v = bfx(x);
    let one = Bf::from_i64(1);
    if call < 2 {
        if !v.abs().le(&one) {
            return if is_invalid(r) { Verdict::Pass } else { Verdict::fail("|x|>1 invalid", name, &args, show_dd(r), "an invalid value".into(), "valid_for_domain_error") };
        }
        if call == 0 && v.is_zero() {
            return if r[0] == 0.0 && r[1] == 0.0 { Verdict::Pass } else { Verdict::fail("asin(0)=0", name, &args, show_dd(r), "0".into(), "wrong_value") };
        }
        if call == 1 && x[0] == 1.0 && x[1] == 0.0 {
            return if r[0] == 0.0 && r[1] == 0.0 { Verdict::Pass } else { Verdict::fail("acos(1)=0", name, &args, show_dd(r), "0".into(), "wrong_value") };
        }
        let endpoint = (x[0] == 1.0 || x[0] == -1.0) && x[1] == 0.0;
        if endpoint && !(call == 1 && x[0] == 1.0) {
            // asin(+-1) = +-pi/2, acos(-1) = pi to 2^-100
            return judge_tol("endpoint to 2^-100", name, &args, r, |p| {
                let e = if call == 0 { rf::asin_pt(&v, p) } else { rf::acos_pt(&v, p) };
                Some((e, Iv::point(&Bf::pow2(-100))))
            }, l);
        }
        let va = judge_tol(if call == 0 { "asin: 2^-45 abs" } else { "acos: 2^-45 abs" }, name, &args, r, |p| {
            let e = if call == 0 { rf::asin_pt(&v, p) } else { rf::acos_pt(&v, p) };
            Some((e, Iv::point(&Bf::pow2(-45))))
        }, l.as_deref_mut());
        if va.is_fail() || call == 1 {
            return va;
        }
        return judge_tol("asin: 2^-43 rel", name, &args, r, |p| {
            let e = rf::asin_pt(&v, p);
            let tol = e.abs().mul_pow2(-43);
            Some((e, tol))
        }, l);
    }
    // atan
    if v.is_zero() {
        return if r[0] == 0.0 && r[1] == 0.0 { Verdict::Pass } else { Verdict::fail("atan(0)=0", name, &args, show_dd(r), "0".into(), "wrong_value") };
    }
    if !v.abs().le(&Bf::pow2(60)) {
        return Verdict::Skip;
    }
    judge_tol("atan: 2^-70 rel", name, &args, r, |p| {
        let e = rf::atan_pt(&v, p);
        let tol = e.abs().mul_pow2(-70);
        Some((e, tol))
    }, l)
}

pub fn judge_atan2(y: [f64; 2], x: [f64; 2], l: Option<&mut Local>) -> Verdict {
    let args = [y[0].to_bits(), y[1].to_bits(), x[0].to_bits(), x[1].to_bits()];
    if !dd_valid_fast(x[0], x[1]) || !dd_valid_fast(y[0], y[1]) {
        return Verdict::Skip;
    }
    let r = match api(|| st::mk(y).atan2(st::mk(x))) {
        Ok(r) => [r.hi(), r.lo()],
        Err(m) => return Verdict::fail("no_panic", "atan2", &args, format!("panic: {}", m), "a value".into(), "panic"),
    };
    let (vy, vx) = (bfx(y), bfx(x));
    let inr = |h: f64| h.abs() >= 2f64.powi(-30) && h.abs() <= 2f64.powi(30);
    let is = |c: st::TF, neg: bool| {
        let (h, l) = if neg { (-c.hi(), -c.lo()) } else { (c.hi(), c.lo()) };
        canon(r[0].to_bits()) == canon(h.to_bits()) && canon(r[1].to_bits()) == canon(l.to_bits())
    };
    use twofloat::consts::{FRAC_PI_2, PI};
    // axes
    if vy.is_zero() && vx.is_zero() {
        return Verdict::Skip;
    }
    if vy.is_zero() {
        if !inr(x[0]) {
            return Verdict::Skip;
        }
        let ok = if vx.sign() > 0 { r[0] == 0.0 && r[1] == 0.0 } else if y[0].is_sign_positive() { is(PI, false) } else { is(PI, true) };
        return if ok { Verdict::Pass } else { Verdict::fail("axis: atan2(+-0, x)", "atan2", &args, show_dd(r), "0 for x > 0, +-PI (sign of the zero) for x < 0".into(), "wrong_axis_value") };
    }
    if vx.is_zero() {
        if !inr(y[0]) {
            return Verdict::Skip;
        }
        let ok = if vy.sign() > 0 { is(FRAC_PI_2, false) } else { is(FRAC_PI_2, true) };
        return if ok { Verdict::Pass } else { Verdict::fail("axis: atan2(y, +-0)", "atan2", &args, show_dd(r), "+-FRAC_PI_2 (sign of y)".into(), "wrong_axis_value") };
    }
    if !inr(x[0]) || !inr(y[0]) {
        return Verdict::Skip;
    }
    judge_tol("atan2: 2^-69 rel", "atan2", &args, r, |p| {
        let e = rf::atan2(&Iv::from_exact(&vy, p + 40), &Iv::from_exact(&vx, p + 40), p);
        let tol = e.abs().mul_pow2(-69);
        Some((e, tol))
    }, l)
}

pub fn hist_judge(c: &crate::hist::HCall, l: Option<&mut Local>) -> Verdict {
    use crate::api::Op;
    match c.as_op() {
        Some(Op::asin) => judge1(0, c.a, l),
        Some(Op::acos) => judge1(1, c.a, l),
        Some(Op::atan) => judge1(2, c.a, l),
        Some(Op::atan2) => judge_atan2(c.a, c.b, l),
        _ => Verdict::Skip,
    }
}

pub fn replay(call: &str, _clause: &str, args: &[u64]) -> Verdict {
    if call == "hist" {
        return crate::hist::replay(args, &hist_judge);
    }
    let x = [f64::from_bits(args[0]), f64::from_bits(args[1])];
    match call {
        "asin" => judge1(0, x, None),
        "acos" => judge1(1, x, None),
        "atan" => judge1(2, x, None),
        _ => judge_atan2(x, [f64::from_bits(args[2]), f64::from_bits(args[3])], None),
    }
}

pub fn run(r: &mut Runner) {
    let quick = r.quick();
    let rec = r.recorder();
    // asin / acos
    let mut xs = grid(&dense_exps(-1074, -1, quick), quick, 91);
    for j in 1..=60 {
        for s in [1.0, -1.0] {
            let h = s * (1.0 - 2f64.powi(-j.min(53)));
            xs.extend(with_los(h, &[0, 1, 20], &[0, (1u64 << 52) - 1], &[]));
            if dd_valid_fast(s, -s * 2f64.powi(-53 - j)) {
                xs.push([s, -s * 2f64.powi(-53 - j)]);
            }
            xs.push([s * 0.5, s * 2f64.powi(-54 - j)]);
            xs.push([s * 0.5, -s * 2f64.powi(-55 - j)]);
        }
    }
    for h in [0.0, -0.0, 1.0, -1.0, 0.5, -0.5, next_up(0.5), next_down(0.5), next_up(1.0), -next_up(1.0), 1.5, -2.0, 1e300, 0.7071067811865476, 0.8660254037844386] {
        xs.extend(with_los(h, &[0, 1, 30], &[0, (1u64 << 52) - 1], &[]));
    }
    xs.extend(crate::fx::linear_ladder(1, 256, 256.0, true));
    xs.push([1.0, 2f64.powi(-60)]);
    xs.push([-1.0, -2f64.powi(-60)]);
    dedup(&mut xs);
    xs.retain(|w| dd_valid_fast(w[0], w[1]));
    let n = xs.len();
    r.notes.push(format!("asin/acos: {} arguments (exponents -1074..-1, both sides of +-1/2, 1 - 2^-j and (1, -2^-j) ladders, +-1, |x| slightly above 1)", n));
    r.add_sample(json!({"call": "asin, acos", "x": show_dd(xs[n / 2])}));
    r.par("asin, acos", n.div_ceil(128), n as u64, |c, l| {
        for i in (c * 128)..((c + 1) * 128).min(n) {
            for call in 0..2 {
                let v = judge1(call, xs[i], Some(l));
                rec.record(l, (i * 2 + call) as u64, v);
            }
        }
    });
    // atan
    let mut xa = grid(&dense_exps(-1074, 60, quick), quick, 93);
    for b in [7.0 / 16.0, 11.0 / 16.0, 19.0 / 16.0, 39.0 / 16.0, 0.5, 1.0, 1.5, 2f64.powi(60)] {
        for d in -3..=3 {
            let h = crate::util::step(b, d);
            for s in [1.0, -1.0] {
                xa.extend(with_los(s * h, &[0, 1, 30], &[0, (1u64 << 52) - 1], &[]));
            }
        }
    }
    // the interior of every reduction interval, linearly: j/128 up to 8, j/4 up to 64
    xa.extend(crate::fx::linear_ladder(1, 1024, 128.0, true));
    xa.extend(crate::fx::linear_ladder(33, 256, 4.0, true));
    xa.push([0.0, 0.0]);
    xa.push([-0.0, 0.0]);
    dedup(&mut xa);
    xa.retain(|w| dd_valid_fast(w[0], w[1]));
    let na = xa.len();
    r.notes.push(format!("atan: {} arguments (exponents -1074..60 both signs, +-3 ulps around 7/16, 11/16, 19/16, 39/16, 1/2, 1, 3/2, 2^60)", na));
    r.par("atan", na.div_ceil(128), na as u64, |c, l| {
        for i in (c * 128)..((c + 1) * 128).min(na) {
            let v = judge1(2, xa[i], Some(l));
            rec.record(l, (1u64 << 40) + i as u64, v);
        }
    });
    // atan2: all four sign combinations, all axis cases
    let ge: Vec<i32> = if quick { vec![-30, -1, 0, 1, 29] } else { (-30..=29).collect() };
    let mut g = grid_thin(&ge, if quick { 1 } else { 3 }, 95);
    for z in [[0.0, 0.0], [-0.0, 0.0], [0.0, -0.0], [-0.0, -0.0], [2f64.powi(30), 0.0], [-2f64.powi(30), 0.0], [2f64.powi(-30), 0.0], [-2f64.powi(-30), 0.0]] {
        g.push(z);
    }
    // ratios across every atan reduction interval: y = j/32 (j up to 128) against x = +-1, +-3
    for j in (1..=128).step_by(if quick { 3 } else { 1 }) {
        g.push([j as f64 / 32.0, 0.0]);
        g.push([-(j as f64) / 32.0, 2f64.powi(-60)]);
    }
    g.push([3.0, 0.0]);
    g.push([-3.0, 0.0]);
    g.push([1.0, 0.0]);
    g.push([-1.0, 0.0]);
    dedup(&mut g);
    let ng = g.len();
    r.notes.push(format!("atan2: all ordered pairs of {} operands (2^-30..2^30, both signs, signed zeros)", ng));
    r.add_sample(json!({"call": "atan2", "y": show_dd(g[ng / 2]), "x": show_dd(g[ng / 3])}));
    r.par("atan2", ng, (ng * ng) as u64, |i, l| {
        for j in 0..ng {
            let v = judge_atan2(g[i], g[j], Some(l));
            rec.record(l, (1u64 << 41) + (i * ng + j) as u64, v);
        }
    });
    {
        let org = crate::organic::states(if quick { 1 } else { 2 });
        let no = org.len();
        r.notes.push(format!("organic operands: {} chain states (depth {} from the C01 seeds)", no, if quick { 1 } else { 2 }));
        r.par("organic operands (chain results): asin, acos, atan", no.div_ceil(128), no as u64, |c, l| {
            for i in (c * 128)..((c + 1) * 128).min(no) {
                for call in 0..3 {
                    let v = judge1(call, org[i], Some(l));
                    rec.record(l, (1u64 << 60) + (i * 3 + call) as u64, v);
                }
            }
        });
    }
    {
        let org: Vec<[f64; 2]> = crate::organic::states(1).into_iter().step_by(if quick { 11 } else { 4 }).collect();
        let no = org.len();
        r.notes.push(format!("organic pairs for atan2: all ordered pairs of {} chain states", no));
        r.par("organic pairs (chain results): atan2", no, (no * no) as u64, |i, l| {
            for j in 0..no {
                let v = judge_atan2(org[i], org[j], Some(l));
                rec.record(l, (1u64 << 59) + (i * no + j) as u64, v);
            }
        });
    }
    {
        let gs = crate::fx::generic_stream(if quick { 15000 } else { 1500000 }, 117, -40, -1);
        let ngs = gs.len();
        r.notes.push(format!("generic stream for asin/acos: {} operands of a fixed Weyl sequence (full-size mantissas in both words, exponents -40..-1)", ngs));
        r.par("generic stream: asin/acos", ngs.div_ceil(64), ngs as u64, |c, l| {
            for i in (c * 64)..((c + 1) * 64).min(ngs) {
                for call in 0..2 {
                    let v = judge1(call, gs[i], Some(l));
                    rec.record(l, (1u64 << 58) + (i * 2 + call) as u64, v);
                }
            }
        });
    }
    {
        let gs = crate::fx::generic_stream(if quick { 15000 } else { 1500000 }, 1170, -40, 59);
        let ngs = gs.len();
        r.notes.push(format!("generic stream for atan: {} operands of a fixed Weyl sequence (full-size mantissas in both words, exponents -40..59)", ngs));
        r.par("generic stream: atan", ngs.div_ceil(64), ngs as u64, |c, l| {
            for i in (c * 64)..((c + 1) * 64).min(ngs) {
                let v = judge1(2, gs[i], Some(l));
                rec.record(l, (1u64 << 57) + i as u64, v);
            }
        });
    }
    {
        // double-double neighbourhoods (0..16 ulps and a geometric tail; thorough: 0..80 and tail) of nice values and of
        // their images under every elementary function: pre-images of nice results, where a result may be snapped
        let mut nb = crate::fx::nice_neighbourhoods(quick);
        // every exponent of the stated range with a thin set of fractions and low words, both signs (a rescaling step,
        // an exponent-indexed table or a branch on the exponent field may treat one binade differently)
        if quick {
            let all: Vec<i32> = (-1000..=59).collect();
            for w in crate::fx::grid_thin(&all, 1, 417) {
                nb.push(w);
                nb.push([-w[0], -w[1]]);
            }
        }
        // both sides of the end points of the stated ranges and of the documented internal thresholds
        nb.extend(crate::fx::edge_points(&[1.0, 2f64.powi(60), 2f64.powi(30), 2f64.powi(-30), 0.5, 39.0 / 16.0], quick));
        let nn = nb.len();
        r.notes.push(format!("neighbourhoods of nice pre-images: {} operands ({} base points = integers, simple fractions, multiples of pi, e, ln 2, ln 10, sqrt 2, sqrt 3 and their images under every elementary function; offsets in double-double ulps on both sides)", nn, crate::fx::nice_bases().len()));
        r.par("neighbourhoods of nice pre-images", nn.div_ceil(64), nn as u64, |c, l| {
            for i in (c * 64)..((c + 1) * 64).min(nn) {
                for call in 0..3 {
                    let v = judge1(call, nb[i], Some(l));
                    rec.record(l, (1u64 << 56) + (i * 3 + call) as u64, v);
                }
            }
        });
    }
    {
        // relational pairs: (x, x), (x, -x), (x, 2x), (x, x/2), (x, neighbours of x), (x, hi(x)), (x, +-1) in both orders
        let xs: Vec<[f64; 2]> = crate::fx::grid(if quick { &[-30, 0, 29] } else { &[-30, -29, -10, -1, 0, 1, 10, 29] }, quick, 171);
        let ps = crate::fx::relational_pairs(&xs);
        let np = ps.len();
        r.notes.push(format!("relational pairs for atan2: {} pairs from {} operands (x with x, -x, 2x, x/2, its double-double neighbours, its high word, +-1; both argument orders)", np, xs.len()));
        r.par("relational pairs: atan2", np.div_ceil(64), 2 * np as u64, |c, l| {
            for i in (c * 64)..((c + 1) * 64).min(np) {
                let (a, b) = ps[i];
                let v = judge_atan2(a, b, Some(l));
                rec.record(l, (9u64 << 55) + 2 * i as u64, v);
                let v = judge_atan2(b, a, Some(l));
                rec.record(l, (9u64 << 55) + 2 * i as u64 + 1, v);
            }
        });
    }
    {
        // generic stream of (y, x) pairs for atan2 over the whole stated range, exponent offset -6..6 (every quadrant)
        let n: u64 = if quick { 20_000 } else { 2_000_000 };
        r.notes.push(format!("generic stream for atan2: {} pairs of a fixed Weyl sequence over exponents -30..29, exponent offset -6..6, all sign combinations", n));
        r.par("generic stream: atan2", (n / 1024) as usize + 1, n, |c, l| {
            for i in (c as u64 * 1024)..((c as u64 + 1) * 1024).min(n) {
                let a = match tfref::alpha::generic_dd(i, 1701, -30 + 6, 29 - 6) {
                    Some(a) => a,
                    None => continue,
                };
                let ea = crate::grid::exp_of(a[0]);
                let d = (i % 13) as i32 - 6;
                if let Some(b) = tfref::alpha::generic_dd(i, 1702 + (i % 5), ea + d, ea + d) {
                    let v = judge_atan2(a, b, Some(l));
                    rec.record(l, (12u64 << 55) + i, v);
                }
            }
        });
    }
    {
        use crate::api::Op;
        let bases: Vec<[f64; 2]> = vec![[-0.25, 0.0], [0.3, 1e-18], [0.4375, 0.0], [2.0, -1e-17], [0.9, 2e-17], [40.0, 0.0]];
        let mut groups = crate::hist::unary_groups(&[Op::atan], &bases, [0.6, 0.0]);
        groups.extend(crate::hist::unary_groups(&[Op::asin, Op::acos], &[[-0.25, 0.0], [0.5, 1e-18], [0.99, 0.0]], [0.1, 0.0]));
        groups.extend(crate::hist::binary_groups(&[Op::atan2], &[([-1.0, 0.0], [8.0, 0.0]), ([1.0, 1e-17], [-8.0, 0.0]), ([3.0, 0.0], [2.0, 1e-17])]));
        crate::hist::explore(r, "histories: asin/acos/atan/atan2", &groups, 3, &hist_judge, 14u64 << 55);
        // cross-family histories: the same judged calls, preceded by every other public function on the same operands
        crate::hist::explore_mixed(r, "cross-family histories: any public call, then asin/acos/atan/atan2", &groups, 2, &hist_judge, (14u64 << 55) + (1u64 << 53));
    }
}
