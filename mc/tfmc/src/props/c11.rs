//! C11 — results do not depend on the std / no_std build configuration.
//! Both configurations of the same source tree are linked into this binary (crate `twofloat`
//! with default features; crate `tf_nostd` = the same sources with features {math_funcs} only).
use crate::api::{ns, st, Op};
use crate::grid::{dd_grid, dedup};
use crate::run::{Runner, Verdict};
use crate::util::{hexf, show_dd};
use serde_json::json;
use tfref::alpha::{gen_fracs, mk_f64, mk_subnormal, run_bounded, weyl_fracs};
use tfref::big::Dy;

pub fn judge(op: Op, a: [f64; 2], b: [f64; 2]) -> Verdict {
    let r1 = st::call(op, a, b);
    let r2 = ns::call(op, a, b);
    let args = [a[0].to_bits(), a[1].to_bits(), b[0].to_bits(), b[1].to_bits()];
    if !r1.same(&r2) {
        return Verdict::fail("configurations_agree", op.name(), &args, format!("no_std (libm::fma): {}", r2.show()), format!("std (f64::mul_add): {}", r1.show()), "configs_differ");
    }
    // the fused multiply-add is correctly rounded: new_mul's low word is the exact residual (both configurations)
    if op == Op::new_mul && a[0].is_finite() && b[0].is_finite() {
        let p = Dy::prod_f64(a[0], b[0]);
        if !p.is_zero() && p.msb().unwrap() >= -960 && p.msb().unwrap() < 1023 {
            for (cfg, r) in [("std", r1), ("no_std", r2)] {
                if r.k != 0 {
                    continue;
                }
                let w = r.dd();
                let ok = w[0].is_finite() && w[1].is_finite() && w[0] == p.to_f64_rn().0 && Dy::from_dd(w[0], w[1]).eq(&p);
                if !ok {
                    return Verdict::fail("fma_correctly_rounded", op.name(), &args, format!("{}: {}", cfg, show_dd(w)), "hi = RN(ab), lo = ab - hi exactly".into(), "fma_wrong");
                }
            }
        }
    }
    Verdict::Pass
}

pub const EXT_NAMES: [&str; 15] = ["from_i128", "from_u128", "from_i64", "from_u64", "to_i128", "to_u128", "to_i64", "to_u64", "to_i32", "to_u8", "compare", "compare_f64", "format", "validity_and_sign_queries", "to_f64_f32"];

/// conversions, comparisons, text, validity: the same call in both configurations
pub fn judge_ext(kind: u8, a: [f64; 2], b: [f64; 2]) -> Verdict {
    let r1 = st::ext(kind, a, b);
    let r2 = ns::ext(kind, a, b);
    if r1 != r2 {
        let args = [a[0].to_bits(), a[1].to_bits(), b[0].to_bits(), b[1].to_bits()];
        return Verdict::fail("configurations_agree", EXT_NAMES[kind as usize], &args, format!("no_std: {:?}", r2), format!("std: {:?}", r1), "configs_differ");
    }
    Verdict::Pass
}

/// history exploration: a prefix call is executed in BOTH configurations (so that both have seen the same history);
/// the last call is compared across the configurations
pub fn hist_exec(c: &crate::hist::HCall) {
    if let Some(op) = c.as_op() {
        let _ = st::call(op, c.a, c.b);
        let _ = ns::call(op, c.a, c.b);
    } else {
        let _ = st::ext(c.code as u8, c.a, c.b);
        let _ = ns::ext(c.code as u8, c.a, c.b);
    }
}
pub fn hist_judge(c: &crate::hist::HCall, _l: Option<&mut crate::run::Local>) -> Verdict {
    match c.as_op() {
        Some(op) => judge(op, c.a, c.b),
        None => judge_ext(c.code as u8, c.a, c.b),
    }
}

pub fn replay(call: &str, _clause: &str, args: &[u64]) -> Verdict {
    if call == "hist" {
        return crate::hist::replay_with(args, &hist_exec, &hist_judge);
    }
    if let Some(k) = EXT_NAMES.iter().position(|n| *n == call) {
        return judge_ext(k as u8, [f64::from_bits(args[0]), f64::from_bits(args[1])], [f64::from_bits(args[2]), f64::from_bits(args[3])]);
    }
    let op = Op::from_name(call).expect("unknown op");
    judge(op, [f64::from_bits(args[0]), f64::from_bits(args[1])], [f64::from_bits(args[2]), f64::from_bits(args[3])])
}

pub fn libm_flavour() -> &'static str {
    if cfg!(feature = "softfloat") {
        "libm built with force-soft-floats: libm::fma is the portable software algorithm"
    } else {
        "libm with its default `arch` feature: on x86_64 libm::fma dispatches to the FMA instruction when the CPU has it"
    }
}

/// special and invalid operand bit patterns
pub fn special_operands() -> Vec<[f64; 2]> {
    let his = [f64::INFINITY, f64::NEG_INFINITY, f64::NAN, 0.0, -0.0, 1.0, -1.0, 2.5, f64::MAX, f64::MIN, f64::MIN_POSITIVE, 5e-324, -5e-324, 1e300, -1e-300];
    let los = [f64::INFINITY, f64::NEG_INFINITY, f64::NAN, 0.0, -0.0, 1.0, -0.5, 5e-324, -5e-324, 2f64.powi(-53), -2f64.powi(-54), 1e284];
    let mut v = vec![];
    for h in his {
        for l in los {
            v.push([h, l]);
        }
    }
    v
}

pub fn run(r: &mut Runner) {
    let quick = r.quick();
    let rec = r.recorder();
    r.notes.push(format!("configuration under comparison: std = f64::mul_add; no_std = libm::fma ({})", libm_flavour()));
    let un: Vec<Op> = Op::ALL.iter().cloned().filter(|o| o.arity() == 1 && *o != Op::from_f64).collect();
    let bin: Vec<Op> = Op::ALL.iter().cloned().filter(|o| o.arity() == 2 && *o != Op::powi).collect();
    // ---- unary entry points
    let mut hf = run_bounded(52, 2);
    hf.extend(gen_fracs(4));
    hf.extend(weyl_fracs(if quick { 4 } else { 16 }, 31));
    let exps: Vec<i32> = if quick { (-1022..=1023).step_by(29).chain(-12..=12).chain([-1022, 1023]).collect() } else { (-1022..=1023).step_by(3).chain(-40..=40).collect() };
    let lf = vec![0u64, (1u64 << 52) - 1, gen_fracs(1)[0], weyl_fracs(1, 32)[0]];
    let mut xs = dd_grid(&exps, &hf, if quick { &[0, 1, 10, 53] } else { &[0, 1, 2, 10, 30, 53, 200] }, &lf, &[5e-324]);
    for k in -4400..=4400 {
        let h = k as f64 * 0.25;
        for lo in [0.0, 3e-17, -3e-17] {
            let x = [h, lo * (1.0 + h.abs())];
            if tfref::big::dd_valid_fast(x[0], x[1]) {
                xs.push(x);
            }
        }
    }
    // exp table strata incl. the ties of the table-index rounding, and linear ladders over the O(1) range
    xs.extend(crate::props::c14::exp_alphabet(true).into_iter().step_by(if quick { 3 } else { 1 }));
    xs.extend(crate::fx::linear_ladder(1, 1024, 128.0, true));
    xs.push([0.0, 0.0]);
    xs.push([-0.0, 0.0]);
    // special and invalid bit patterns (the statement is about identical operand bit patterns, whatever they are):
    // every combination of special high and low words, incl. the (inf, inf) / (NaN, NaN) constants
    let special = special_operands();
    xs.extend(special.iter().cloned());
    dedup(&mut xs);
    let n = xs.len();
    r.add_sample(json!({"operand": show_dd(xs[n / 2]), "unary_ops": un.iter().map(|o| o.name()).collect::<Vec<_>>()}));
    r.par("unary entry points, both configurations", n.div_ceil(256), n as u64, |c, l| {
        for i in (c * 256)..((c + 1) * 256).min(n) {
            for (k, &op) in un.iter().enumerate() {
                rec.record(l, (i * 64 + k) as u64, judge(op, xs[i], [0.0, 0.0]));
            }
            for (k, e) in [-1000i32, -3, 0, 2, 3, 17, 1000, i32::MAX].iter().enumerate() {
                rec.record(l, (i * 64 + 50 + k) as u64, judge(Op::powi, xs[i], [*e as f64, 0.0]));
            }
            // non-TwoFloat results: conversions (the operand words double as integer bit patterns), comparisons
            // against a neighbour, text, validity queries
            let nb = xs[(i * 7 + 1) % n];
            for kind in 0..15u8 {
                rec.record(l, (1u64 << 45) + (i * 16 + kind as usize) as u64, judge_ext(kind, xs[i], nb));
            }
        }
    });
    // ---- binary entry points on the multiplication plan (mantissa-rich) and the addition plan (exponent-rich)
    let mut p = crate::props::c04::plan(quick);
    p.ua = p.ua.into_iter().step_by(if quick { 6 } else { 7 }).collect();
    p.ub = p.ub.into_iter().step_by(if quick { 5 } else { 7 }).collect();
    p.emin = -1022;
    p.emax = 1022;
    if !quick {
        p.e0s = vec![-1000, -450, 0, 449, 600, 996];
    } else {
        p.e0s = vec![-450, 0, 996];
    }
    p.deltas = vec![0, 1, -37, -899, 26, -996, -1500];
    let bin2 = bin.clone();
    r.notes.push(format!("binary: unit alphabets {}x{} at (e0, delta) in {:?} x {:?}; {} binary entry points", p.ua.len(), p.ub.len(), p.e0s, p.deltas, bin.len()));
    p.run(r, "binary entry points, both configurations", 1 << 40, |l, idx, a, b| {
        for (k, &op) in bin2.iter().enumerate() {
            if op.is_math() && idx % 5 != 0 {
                continue;
            }
            rec.record(l, idx * 64 + k as u64, judge(op, a, b));
        }
    });
    // ---- sparse factors x every low-word gap: the addend of the internal fma is then an exact power of two or a
    // sparse value and the second product sits at any distance below it (ties / near-ties of the fma rounding)
    {
        let sp: Vec<u64> = run_bounded(52, 2).into_iter().chain([1u64, 1u64 << 26, (1u64 << 26) + 1, 1u64 << 25]).collect();
        let gaps: Vec<i32> = (53..=112).collect();
        let mops = [Op::mul_f, Op::f_mul, Op::mul, Op::mul_assign_f, Op::div_f, Op::add_f];
        let ns = sp.len();
        r.notes.push(format!("sparse factors: {} x {} fractions (run-bounded, 2^26+1 ...) x {} low-word gaps x 3 low-word mantissas x 2 signs; ops {:?}", ns, ns, gaps.len(), mops.iter().map(|o| o.name()).collect::<Vec<_>>()));
        r.par("sparse factors x every low-word gap", ns, (ns * ns * gaps.len() * 6) as u64, |i, l| {
            let ah = mk_f64(false, 27, sp[i]).unwrap();
            let mut k = 0u64;
            for &fb in &sp {
                let bh = mk_f64(false, 27, fb).unwrap();
                for &g in &gaps {
                    for m in [1.0, 1.5, 1.25] {
                        for s in [1.0, -1.0] {
                            let lo = s * m * 2f64.powi(27 - g);
                            if !tfref::big::dd_valid_fast(ah, lo) {
                                continue;
                            }
                            for (j, &op) in mops.iter().enumerate() {
                                rec.record(l, (3u64 << 52) + ((i as u64) << 32) + k * 8 + j as u64, judge(op, [ah, lo], [bh, 0.0]));
                            }
                            k += 1;
                        }
                    }
                }
            }
        });
    }
    // ---- special / invalid operands: all ordered pairs, every binary entry point
    {
        let ns = special.len();
        let bin3 = bin.clone();
        r.notes.push(format!("special operands: {} patterns (hi, lo each from +-inf, NaN, +-0, +-1, MAX, MIN_POSITIVE, 5e-324, ...): every unary entry point, and all {} ordered pairs x {} binary entry points", ns, ns * ns, bin.len()));
        r.par("special / invalid operands: all ordered pairs", ns, (ns * ns) as u64, |i, l| {
            for j in 0..ns {
                for (k, &op) in bin3.iter().enumerate() {
                    rec.record(l, (7u64 << 52) + ((i * ns + j) * 64 + k) as u64, judge(op, special[i], special[j]));
                }
                for kind in 0..15u8 {
                    rec.record(l, (7u64 << 52) + (1u64 << 40) + ((i * ns + j) * 16 + kind as usize) as u64, judge_ext(kind, special[i], special[j]));
                }
            }
        });
    }
    // ---- validity at every exponent: is_valid / no_overlap / try_from and the entry points that consult them, with the
    // low word at the half-ulp and quarter-ulp thresholds, their neighbours, and the smallest subnormals
    {
        let es: Vec<i32> = (-1022..=1023).collect();
        let frs: Vec<u64> = vec![0, 1, 2, (1u64 << 52) - 1, (1u64 << 52) - 2, 1u64 << 51, (1u64 << 51) + 1, 0x5_5555_5555_5554];
        let vops = [Op::signum, Op::abs, Op::neg, Op::min, Op::max, Op::sin, Op::atan];
        r.notes.push(format!("validity sweep: all 2046 normal exponents x {} fractions x 2 signs x low words at +-(1/2, 1/4) ulp, their f64 neighbours, +-2^-1074, +-2^-1073, 0: is_valid / no_overlap / try_from / sign queries and {:?}", frs.len(), vops.iter().map(|o| o.name()).collect::<Vec<_>>()));
        r.par("validity at every exponent", es.len(), (es.len() * frs.len() * 2 * 22) as u64, |c, l| {
            let e = es[c];
            let mut i = 0u64;
            for &f in &frs {
                for s in [false, true] {
                    let h = mk_f64(s, e, f).unwrap();
                    let mut los: Vec<f64> = vec![0.0, 5e-324, -5e-324, 1e-323, -1e-323];
                    for te in [e - 53, e - 54] {
                        if te >= -1074 {
                            let t = tfref::big::pow2_f64(te);
                            for k in -1..=1 {
                                let b = crate::util::step(t, k);
                                los.push(b);
                                los.push(-b);
                            }
                        }
                    }
                    for lo in los {
                        rec.record(l, (11u64 << 52) + ((c as u64) << 20) + i, judge_ext(13, [h, lo], [1.0, 0.0]));
                        i += 1;
                        for &op in vops.iter() {
                            rec.record(l, (11u64 << 52) + ((c as u64) << 20) + i, judge(op, [h, lo], [0.0, 0.0]));
                            i += 1;
                        }
                    }
                }
            }
        });
    }
    // ---- every exponent of one factor (constructors and operators that reach fma)
    let mut fr_a = run_bounded(52, 2);
    fr_a.extend(gen_fracs(2));
    let fr_b: Vec<u64> = vec![0, 1, (1u64 << 52) - 1, 1u64 << 51, gen_fracs(1)[0], weyl_fracs(1, 33)[0]];
    let all_e: Vec<i32> = (-1075..=1023).collect();
    let fops = [Op::new_mul, Op::new_div, Op::mul, Op::mul_f, Op::f_mul, Op::div, Op::div_f, Op::f_div, Op::rem];
    r.notes.push(format!("all-exponent sweep: one factor over ALL exponents -1074..1023 (subnormals included) x {} fractions x 2 signs; the other factor {} fractions at exponents chosen relative to it; ops {:?}", fr_a.len(), fr_b.len(), fops.iter().map(|o| o.name()).collect::<Vec<_>>()));
    r.par("all-exponent sweep of one factor", all_e.len(), (all_e.len() * fr_a.len() * 2 * fr_b.len() * 7) as u64, |c, l| {
        let e = all_e[c];
        let mut i = 0u64;
        for &f in &fr_a {
            for s in [false, true] {
                let a = if e >= -1022 { mk_f64(s, e, f).unwrap() } else if e == -1023 { mk_subnormal(s, f.max(1)) } else if e == -1074 { mk_subnormal(s, 1) } else { mk_subnormal(s, (f >> 20).max(1)) };
                let ea = crate::grid::exp_of(a);
                for t in [-ea - 900, -ea - 1, -ea, -ea + 1, -ea + 1000, 0, ea] {
                    if !(-1022..=1023).contains(&t) {
                        continue;
                    }
                    for &g in &fr_b {
                        let b = mk_f64(false, t, g).unwrap();
                        for (k, &op) in fops.iter().enumerate() {
                            rec.record(l, (1u64 << 50) + ((c as u64) << 24) + i * 16 + k as u64, judge(op, [a, 0.0], [b, 0.0]));
                            rec.record(l, (1u64 << 50) + ((c as u64) << 24) + i * 16 + 9 + (k as u64 % 2), judge(op, [b, 0.0], [a, 0.0]));
                        }
                        i += 1;
                    }
                }
            }
        }
    });
    r.add_sample(json!({"call": "new_mul", "a": hexf(mk_f64(false, 996, (1u64 << 52) - (1 << 26)).unwrap()), "b": hexf(1.5), "note": "member of the all-exponent sweep"}));
    {
        // histories: state kept by one configuration only (a thread_local behind cfg(feature = "std"), a different cache
        // layout) makes the configurations disagree after the same call history
        let un: Vec<Op> = Op::ALL.iter().cloned().filter(|o| o.arity() == 1 && *o != Op::from_f64 && *o != Op::sin_cos).collect();
        let mut groups: Vec<Vec<crate::hist::HCall>> = vec![];
        for &op in &un {
            groups.extend(crate::hist::unary_groups(&[op], &[[1.25, 1e-17]], [-2.5, 1e-16]));
        }
        for &op in &[Op::add, Op::sub, Op::mul, Op::div, Op::rem, Op::powf, Op::atan2, Op::hypot, Op::log, Op::div_assign, Op::sub_assign] {
            groups.extend(crate::hist::binary_groups(&[op], &[([1.5, 1e-17], [1.25, -3e-18])]));
        }
        groups.push((4u8..=9).flat_map(|k| [crate::hist::HCall::ext(k, [2f64.powi(62), 3.0], [0.0, 0.0]), crate::hist::HCall::ext(k, [5.0, 0.0], [0.0, 0.0])]).collect());
        groups.push(vec![crate::hist::HCall::ext(12, [1.0, 0.0], [0.0, 0.0]), crate::hist::HCall::ext(12, [1.0, -0.0], [0.0, 0.0]), crate::hist::HCall::ext(13, [1.0, 2f64.powi(-53)], [0.0, 0.0]), crate::hist::HCall::ext(13, [1.0, -2f64.powi(-53)], [0.0, 0.0]), crate::hist::HCall::ext(10, [1.0, 2f64.powi(-53)], [2.0, 0.0])]);
        crate::hist::explore_with(r, "histories in both configurations", &groups, 3, &hist_exec, &hist_judge, 13u64 << 52);
    }
}
