//! C09 — integer and float conversions are exact, range-checked and round-trip.
use crate::api::st;
use crate::grid::{dd_grid, dedup, with_los};
use crate::run::{api, Local, Recorder, Runner, Verdict};
use crate::util::{hexf, next_down, next_up, show_dd};
use core::convert::TryFrom;
use num_traits::{FromPrimitive, NumCast, ToPrimitive};
use serde_json::json;
use tfref::alpha::{gen_fracs, run_bounded, run_bounded_128};
use tfref::big::{dd_valid, dd_valid_fast, Dy};

// ---------------------------------------------------------------- integer -> TwoFloat

/// Judge the three routes that turn an integer into a TwoFloat.  `bits` = width of the source type.
fn judge_from(name: &'static str, args: &[u64], n: &Dy, bits: u32, routes: &[(&'static str, Result<Option<st::TF>, String>)]) -> Verdict {
    for (route, res) in routes {
        let r = match res {
            Err(m) => return Verdict::fail("no_panic", name, args, format!("{}: panic: {}", route, m), "a value".into(), "panic"),
            Ok(None) => return Verdict::fail("from_int_some", name, args, format!("{}: None", route), "Some(value)".into(), "none"),
            Ok(Some(t)) => [t.hi(), t.lo()],
        };
        if !dd_valid(r[0], r[1]) {
            return Verdict::fail("from_int_valid", name, args, format!("{}: {}", route, show_dd(r)), "a valid TwoFloat".into(), "invalid_result");
        }
        let v = Dy::from_dd(r[0], r[1]);
        let e = v.sub(n);
        if bits <= 64 || n.sig_bits() <= 106 {
            if !e.is_zero() {
                return Verdict::fail("from_int_exact", name, args, format!("{}: {}", route, show_dd(r)), format!("exactly {}", n.to_hex()), "inexact");
            }
        } else {
            let (ok, _) = e.within(1, -106, n);
            if !ok {
                return Verdict::fail("from_int_2^-106", name, args, format!("{}: {}", route, show_dd(r)), format!("within 2^-106 of {}", n.to_hex()), "over_bound");
            }
        }
    }
    Verdict::Pass
}

macro_rules! from_int_judge {
    ($fname:ident, $t:ty, $bits:expr, $fp:ident, $dy:expr) => {
        pub fn $fname(n: $t) -> Verdict {
            let name = concat!("from_", stringify!($t));
            let w = n as i128 as u128;
            let args = [w as u64, (w >> 64) as u64];
            let routes = [
                ("TwoFloat::from", api(|| Some(<st::TF as From<$t>>::from(n)))),
                ("FromPrimitive", api(|| <st::TF as FromPrimitive>::$fp(n))),
                ("NumCast::from", api(|| <st::TF as NumCast>::from(n))),
            ];
            let d: Dy = $dy(n);
            let v = judge_from(name, &args, &d, $bits, &routes);
            if v.is_fail() {
                return v;
            }
            // round trip: T::try_from(TwoFloat::from(n)) == Ok(n) whenever n is exactly representable
            if let Ok(Some(t)) = &routes[0].1 {
                if Dy::from_dd(t.hi(), t.lo()).eq(&d) {
                    match api(|| <$t>::try_from(*t)) {
                        Ok(Ok(m)) if m == n => {}
                        Ok(other) => return Verdict::fail("int_roundtrip", name, &args, format!("{:?}", other.ok()), format!("Ok({})", n), "roundtrip_failed"),
                        Err(m) => return Verdict::fail("no_panic", name, &args, format!("try_from panic: {}", m), "a value".into(), "panic"),
                    }
                }
            }
            Verdict::Pass
        }
    };
}

from_int_judge!(from_i8, i8, 8, from_i8, |n: i8| Dy::from_i64(n as i64));
from_int_judge!(from_u8, u8, 8, from_u8, |n: u8| Dy::from_i64(n as i64));
from_int_judge!(from_i16, i16, 16, from_i16, |n: i16| Dy::from_i64(n as i64));
from_int_judge!(from_u16, u16, 16, from_u16, |n: u16| Dy::from_i64(n as i64));
from_int_judge!(from_i32, i32, 32, from_i32, |n: i32| Dy::from_i64(n as i64));
from_int_judge!(from_u32, u32, 32, from_u32, |n: u32| Dy::from_i64(n as i64));
from_int_judge!(from_i64, i64, 64, from_i64, |n: i64| Dy::from_i64(n));
from_int_judge!(from_u64, u64, 64, from_u64, |n: u64| Dy::from_u128(n as u128));
from_int_judge!(from_i128, i128, 128, from_i128, |n: i128| Dy::from_i128(n));
from_int_judge!(from_u128, u128, 128, from_u128, |n: u128| Dy::from_u128(n));

// ---------------------------------------------------------------- TwoFloat -> integer

macro_rules! to_int_judge {
    ($fname:ident, $t:ty, $tp:ident, $todyn:expr) => {
        pub fn $fname(x: [f64; 2]) -> Verdict {
            let name = concat!("to_", stringify!($t));
            let args = [x[0].to_bits(), x[1].to_bits()];
            let t = st::mk(x);
            // specification
            let want: Option<$t> = if x[0].is_nan() || x[0].is_infinite() {
                None
            } else if !dd_valid_fast(x[0], x[1]) {
                return Verdict::Skip;
            } else {
                let tr = Dy::from_dd(x[0], x[1]).trunc();
                $todyn(&tr)
            };
            let routes: [(&str, Result<Option<$t>, String>); 4] = [
                ("try_from(TwoFloat)", api(|| <$t>::try_from(t).ok())),
                ("try_from(&TwoFloat)", api(|| <$t>::try_from(&t).ok())),
                ("ToPrimitive", api(|| ToPrimitive::$tp(&t))),
                ("NumCast::from", api(|| <$t as NumCast>::from(t))),
            ];
            for (route, r) in routes.iter() {
                match r {
                    Err(m) => return Verdict::fail("no_panic", name, &args, format!("{}: panic: {}", route, m), format!("{:?}", want), "panic"),
                    Ok(g) if *g == want => {}
                    Ok(g) => {
                        let sig = match (g, &want) {
                            (Some(_), None) => "accepted_out_of_range",
                            (None, Some(_)) => "rejected_in_range",
                            _ => "wrong_integer",
                        };
                        return Verdict::fail("to_int", name, &args, format!("{}: {:?}", route, g), format!("{:?} (= trunc(hi+lo) if in range)", want), sig);
                    }
                }
            }
            Verdict::Pass
        }
    };
}

fn dy_i(d: &Dy) -> Option<i128> {
    d.to_i128()
}
to_int_judge!(to_i8, i8, to_i8, |d: &Dy| dy_i(d).and_then(|v| i8::try_from(v).ok()));
to_int_judge!(to_u8, u8, to_u8, |d: &Dy| dy_i(d).and_then(|v| u8::try_from(v).ok()));
to_int_judge!(to_i16, i16, to_i16, |d: &Dy| dy_i(d).and_then(|v| i16::try_from(v).ok()));
to_int_judge!(to_u16, u16, to_u16, |d: &Dy| dy_i(d).and_then(|v| u16::try_from(v).ok()));
to_int_judge!(to_i32, i32, to_i32, |d: &Dy| dy_i(d).and_then(|v| i32::try_from(v).ok()));
to_int_judge!(to_u32, u32, to_u32, |d: &Dy| dy_i(d).and_then(|v| u32::try_from(v).ok()));
to_int_judge!(to_i64, i64, to_i64, |d: &Dy| dy_i(d).and_then(|v| i64::try_from(v).ok()));
to_int_judge!(to_u64, u64, to_u64, |d: &Dy| d.to_u128().and_then(|v| u64::try_from(v).ok()));
to_int_judge!(to_i128, i128, to_i128, |d: &Dy| d.to_i128());
to_int_judge!(to_u128, u128, to_u128, |d: &Dy| d.to_u128());

/// the pointer-sized spellings of the ToPrimitive / NumCast routes (isize, usize): same specification as
/// the fixed-width type of the same size
pub fn to_ptr_sized(x: [f64; 2]) -> Verdict {
    let args = [x[0].to_bits(), x[1].to_bits()];
    let t = st::mk(x);
    if x[0].is_finite() && !dd_valid_fast(x[0], x[1]) {
        return Verdict::Skip;
    }
    let tr = if x[0].is_finite() { Some(Dy::from_dd(x[0], x[1]).trunc()) } else { None };
    let want_i: Option<isize> = tr.as_ref().and_then(|d| d.to_i128()).and_then(|v| isize::try_from(v).ok());
    let want_u: Option<usize> = tr.as_ref().and_then(|d| d.to_u128()).and_then(|v| usize::try_from(v).ok());
    let ri = [("ToPrimitive::to_isize", api(|| ToPrimitive::to_isize(&t))), ("NumCast::from -> isize", api(|| <isize as NumCast>::from(t)))];
    let ru = [("ToPrimitive::to_usize", api(|| ToPrimitive::to_usize(&t))), ("NumCast::from -> usize", api(|| <usize as NumCast>::from(t)))];
    for (route, r) in ri.iter() {
        match r {
            Err(m) => return Verdict::fail("no_panic", "to_isize", &args, format!("{}: panic: {}", route, m), format!("{:?}", want_i), "panic"),
            Ok(g) if *g == want_i => {}
            Ok(g) => return Verdict::fail("to_int", "to_isize", &args, format!("{}: {:?}", route, g), format!("{:?} (= trunc(hi+lo) if in range)", want_i), if g.is_some() && want_i.is_none() { "accepted_out_of_range" } else { "wrong_integer" }),
        }
    }
    for (route, r) in ru.iter() {
        match r {
            Err(m) => return Verdict::fail("no_panic", "to_usize", &args, format!("{}: panic: {}", route, m), format!("{:?}", want_u), "panic"),
            Ok(g) if *g == want_u => {}
            Ok(g) => return Verdict::fail("to_int", "to_usize", &args, format!("{}: {:?}", route, g), format!("{:?} (= trunc(hi+lo) if in range)", want_u), if g.is_some() && want_u.is_none() { "accepted_out_of_range" } else { "wrong_integer" }),
        }
    }
    Verdict::Pass
}

/// FromPrimitive::from_isize / from_usize and NumCast::from(isize / usize): exact (pointer-sized values have at most 64 bits)
pub fn from_ptr_sized(w: u64) -> Verdict {
    let args = [w, 0];
    let (i, u) = (w as i64 as isize, w as usize);
    let routes = [
        ("FromPrimitive::from_isize", api(|| <st::TF as FromPrimitive>::from_isize(i)), Dy::from_i64(i as i64)),
        ("NumCast::from(isize)", api(|| <st::TF as NumCast>::from(i)), Dy::from_i64(i as i64)),
        ("FromPrimitive::from_usize", api(|| <st::TF as FromPrimitive>::from_usize(u)), Dy::from_u128(u as u128)),
        ("NumCast::from(usize)", api(|| <st::TF as NumCast>::from(u)), Dy::from_u128(u as u128)),
    ];
    for (route, r, d) in routes.iter() {
        match r {
            Err(m) => return Verdict::fail("no_panic", "from_ptr_sized", &args, format!("{}: panic: {}", route, m), "a value".into(), "panic"),
            Ok(None) => return Verdict::fail("from_int_some", "from_ptr_sized", &args, format!("{}: None", route), "Some(exact value)".into(), "none"),
            Ok(Some(t)) => {
                let wds = [t.hi(), t.lo()];
                if !dd_valid_fast(wds[0], wds[1]) {
                    return Verdict::fail("from_int_valid", "from_ptr_sized", &args, format!("{}: {}", route, show_dd(wds)), "a valid TwoFloat".into(), "invalid_result");
                }
                if !Dy::from_dd(wds[0], wds[1]).eq(d) {
                    return Verdict::fail("from_int_exact", "from_ptr_sized", &args, format!("{}: {}", route, show_dd(wds)), format!("exactly {}", d.to_hex()), "inexact");
                }
            }
        }
    }
    Verdict::Pass
}

pub fn judge_to_all(x: [f64; 2], l: &mut Local, rec: &Recorder, idx: u64) {
    let fs: [fn([f64; 2]) -> Verdict; 10] = [to_i8, to_u8, to_i16, to_u16, to_i32, to_u32, to_i64, to_u64, to_i128, to_u128];
    for (k, f) in fs.iter().enumerate() {
        rec.record(l, idx * 12 + k as u64, f(x));
    }
    rec.record(l, idx * 12 + 10, judge_float(x));
    rec.record(l, idx * 12 + 11, to_ptr_sized(x));
}

/// f64::from(x) is the high word, f32::from(x) the high word rounded to f32 (all four impls)
pub fn judge_float(x: [f64; 2]) -> Verdict {
    let args = [x[0].to_bits(), x[1].to_bits()];
    if x[0].is_nan() {
        return Verdict::Skip;
    }
    let t = st::mk(x);
    let r = api(|| (<f64 as From<st::TF>>::from(t), <f64 as From<&st::TF>>::from(&t), <f32 as From<st::TF>>::from(t), <f32 as From<&st::TF>>::from(&t), ToPrimitive::to_f64(&t)));
    match r {
        Err(m) => Verdict::fail("no_panic", "to_float", &args, format!("panic: {}", m), "a value".into(), "panic"),
        Ok((a, b, c, d, e)) => {
            let w32 = x[0] as f32;
            if a.to_bits() != x[0].to_bits() || b.to_bits() != x[0].to_bits() || e.map(|v| v.to_bits()) != Some(x[0].to_bits()) {
                return Verdict::fail("f64_from", "to_float", &args, format!("{} / {} / {:?}", hexf(a), hexf(b), e), format!("the high word {}", hexf(x[0])), "wrong_value");
            }
            if c.to_bits() != w32.to_bits() || d.to_bits() != w32.to_bits() {
                return Verdict::fail("f32_from", "to_float", &args, format!("{:e} / {:e}", c, d), format!("high word rounded to f32 = {:e}", w32), "wrong_value");
            }
            Verdict::Pass
        }
    }
}

pub fn judge_from_f32(v: f32) -> Verdict {
    let args = [v.to_bits() as u64];
    if v.is_nan() {
        return Verdict::Skip;
    }
    match api(|| <st::TF as From<f32>>::from(v)) {
        Err(m) => Verdict::fail("no_panic", "from_f32", &args, format!("panic: {}", m), "a value".into(), "panic"),
        Ok(t) => {
            if t.hi().to_bits() != (v as f64).to_bits() || t.lo() != 0.0 {
                return Verdict::fail("from_f32_exact", "from_f32", &args, show_dd([t.hi(), t.lo()]), format!("({}, 0)", hexf(v as f64)), "not_exact");
            }
            Verdict::Pass
        }
    }
}

pub fn hist_judge(c: &crate::hist::HCall, _l: Option<&mut Local>) -> Verdict {
    if c.kind != 1 {
        return Verdict::Skip;
    }
    match c.code {
        4 => to_i128(c.a),
        5 => to_u128(c.a),
        6 => to_i64(c.a),
        7 => to_u64(c.a),
        8 => to_i32(c.a),
        9 => to_u8(c.a),
        _ => Verdict::Skip,
    }
}

pub fn replay(call: &str, _clause: &str, args: &[u64]) -> Verdict {
    if call == "hist" {
        return crate::hist::replay(args, &hist_judge);
    }
    let w = |a: &[u64]| (a[0] as u128) | ((*a.get(1).unwrap_or(&0) as u128) << 64);
    let x = |a: &[u64]| [f64::from_bits(a[0]), f64::from_bits(a[1])];
    match call {
        "from_i8" => from_i8(w(args) as i8),
        "from_u8" => from_u8(w(args) as u8),
        "from_i16" => from_i16(w(args) as i16),
        "from_u16" => from_u16(w(args) as u16),
        "from_i32" => from_i32(w(args) as i32),
        "from_u32" => from_u32(w(args) as u32),
        "from_i64" => from_i64(w(args) as i64),
        "from_u64" => from_u64(w(args) as u64),
        "from_i128" => from_i128(w(args) as i128),
        "from_u128" => from_u128(w(args)),
        "to_i8" => to_i8(x(args)),
        "to_u8" => to_u8(x(args)),
        "to_i16" => to_i16(x(args)),
        "to_u16" => to_u16(x(args)),
        "to_i32" => to_i32(x(args)),
        "to_u32" => to_u32(x(args)),
        "to_i64" => to_i64(x(args)),
        "to_u64" => to_u64(x(args)),
        "to_i128" => to_i128(x(args)),
        "to_u128" => to_u128(x(args)),
        "to_float" => judge_float(x(args)),
        "to_isize" | "to_usize" => to_ptr_sized(x(args)),
        "from_ptr_sized" => from_ptr_sized(args[0]),
        "from_f32" => judge_from_f32(f32::from_bits(args[0] as u32)),
        _ => panic!("unknown call {}", call),
    }
}

/// 64-bit integer alphabet: run-bounded patterns plus neighbours of every power of two and of
/// every rounding tie of the 53-bit high word.
fn ints64(k: u32) -> Vec<u64> {
    let mut v = run_bounded(64, k);
    for j in 0..64u32 {
        let p = 1u64 << j;
        for d in [0u64, 1, 2, 3] {
            v.push(p.wrapping_add(d));
            v.push(p.wrapping_sub(d));
        }
        if j >= 54 {
            // ties: 2^j + odd*2^(j-53) + 2^(j-54)
            let half = 1u64 << (j - 54);
            let ulp = 1u64 << (j - 53);
            for m in [0u64, 1, 2, 3] {
                for d in [0u64, 1] {
                    v.push(p.wrapping_add(m * ulp).wrapping_add(half).wrapping_add(d));
                    v.push(p.wrapping_add(m * ulp).wrapping_add(half).wrapping_sub(d));
                }
            }
        }
    }
    v.push(u64::MAX);
    v.push(u64::MAX - 1);
    v.sort();
    v.dedup();
    v
}
pub fn ints128(k: u32) -> Vec<u128> {
    let mut v = run_bounded_128(k);
    for j in 0..128u32 {
        let p = 1u128 << j;
        for d in [0u128, 1, 2, 3] {
            v.push(p.wrapping_add(d));
            v.push(p.wrapping_sub(d));
        }
        if j >= 53 {
            // the ties of rounding an integer in [2^j, 2^(j+1)) to 53 bits sit at odd multiples of 2^(j-53):
            // every multiple m * 2^(j-53), m = 1..8, with its neighbours, and (for long integers) with the second-level
            // distances 2^(j-106), 2^(j-107) at which the remainder itself rounds
            let t = 1u128 << (j - 53);
            for m in 1..=8u128 {
                for d in [0u128, 1, 2, 3] {
                    v.push(p.wrapping_add(m * t).wrapping_add(d));
                    v.push(p.wrapping_add(m * t).wrapping_sub(d));
                }
                if j >= 107 {
                    for sh in [j - 106, j - 107] {
                        let d2 = 1u128 << sh;
                        v.push(p.wrapping_add(m * t).wrapping_add(d2));
                        v.push(p.wrapping_add(m * t).wrapping_sub(d2));
                    }
                }
            }
            // the same around an odd 53-bit high word (p + 2^(j-52)): p + 2^(j-52) +- (2^(j-53) - 1)
            let u = 1u128 << (j - 52).min(127);
            if j >= 54 && j < 127 {
                for k in [1u128, 3, 5] {
                    v.push(p.wrapping_add(k * u).wrapping_add(t - 1));
                    v.push(p.wrapping_add(k * u).wrapping_sub(t - 1));
                }
            }
        }
        if j >= 54 {
            let half = 1u128 << (j - 54);
            let ulp = 1u128 << (j - 53);
            for m in [0u128, 1, 2, 3] {
                for d in [0u128, 1] {
                    v.push(p.wrapping_add(m * ulp).wrapping_add(half).wrapping_add(d));
                    v.push(p.wrapping_add(m * ulp).wrapping_add(half).wrapping_sub(d));
                    // remainder itself close to a 53-bit rounding tie (74-bit remainders)
                    if j >= 108 {
                        let h2 = 1u128 << (j - 107);
                        v.push(p.wrapping_add(m * ulp).wrapping_add(half).wrapping_sub(h2));
                        v.push(p.wrapping_add(m * ulp).wrapping_add(half).wrapping_sub(1));
                        v.push(p.wrapping_add((m + 1) * ulp).wrapping_sub(half).wrapping_sub(1));
                        v.push(p.wrapping_add((m + 1) * ulp).wrapping_sub(half).wrapping_add(h2));
                    }
                }
            }
        }
    }
    v.push(u128::MAX);
    v.push(u128::MAX - 1);
    v.sort();
    v.dedup();
    v
}

pub fn x_alphabet(quick: bool) -> Vec<[f64; 2]> {
    let mut abs_los: Vec<f64> = vec![0.25, 0.5, next_down(0.5), 0.75, next_down(1.0), 1.0, next_up(1.0), 1.5, 2.0, 3.0, 255.0, 256.0, 1024.0, 5e-324, 1e-300, 2f64.powi(-60)];
    for j in [1, 2, 10, 20, 40, 52] {
        abs_los.push(1.0 - 2f64.powi(-j));
        abs_los.push(2f64.powi(j));
        abs_los.push(2f64.powi(j) - 1.0);
        abs_los.push(2f64.powi(j) + 0.5);
    }
    let gaps = vec![0, 1, 2, 3, 10, 30, 52, 53];
    let lf = vec![0u64, (1u64 << 52) - 1, 1u64 << 51, gen_fracs(1)[0]];
    let mut his: Vec<f64> = vec![0.0, -0.0];
    // boundaries of every integer type: +-2^k, +-(2^k - 1), +-(2^k + 1), neighbours
    for k in [0, 1, 2, 7, 8, 15, 16, 31, 32, 52, 53, 54, 63, 64, 65, 100, 126, 127, 128, 129] {
        let p = 2f64.powi(k);
        for h in [p, next_down(p), next_up(p), p - 1.0, p + 1.0, p - 0.5, p + 0.5, p * 1.5] {
            his.push(h);
            his.push(-h);
        }
    }
    for n in 0..=(if quick { 40 } else { 300 }) {
        for q in [0.0, 0.5, 0.99] {
            his.push(n as f64 + q);
            his.push(-(n as f64 + q));
        }
    }
    let mut v: Vec<[f64; 2]> = Vec::new();
    for h in his {
        v.extend(with_los(h, &gaps, &lf, &abs_los));
    }
    // generic grid over all exponents
    let mut hf = run_bounded(52, 1);
    hf.extend(gen_fracs(3));
    hf.push(1u64 << 51);
    let exps: Vec<i32> = if quick { (-1022..=1023).step_by(7).chain(-4..=132).collect() } else { (-1022..=1023).collect() };
    v.extend(dd_grid(&exps, &hf, &[0, 1, 10, 52], &lf, &abs_los));
    // non-finite representatives
    for w in [[f64::INFINITY, f64::INFINITY], [f64::NEG_INFINITY, f64::NEG_INFINITY], [f64::NAN, f64::NAN], [f64::INFINITY, 0.0], [f64::NEG_INFINITY, 0.0], [f64::NAN, 0.0], [1.0, f64::NAN], [1.0, f64::INFINITY], [f64::INFINITY, f64::NAN], [f64::INFINITY, f64::NEG_INFINITY], [-f64::NAN, 0.0]] {
        v.push(w);
    }
    dedup(&mut v);
    v
}

pub fn run(r: &mut Runner) {
    let quick = r.quick();
    let rec = r.recorder();
    // ---- small integer types: every value
    r.par("from 8/16-bit (all values)", 4, 2 * 256 + 2 * 65536, |c, l| match c {
        0 => {
            for n in i8::MIN..=i8::MAX {
                rec.record(l, n as u8 as u64, from_i8(n));
            }
        }
        1 => {
            for n in u8::MIN..=u8::MAX {
                rec.record(l, 256 + n as u64, from_u8(n));
            }
        }
        2 => {
            for n in i16::MIN..=i16::MAX {
                rec.record(l, 1024 + n as u16 as u64, from_i16(n));
            }
        }
        _ => {
            for n in u16::MIN..=u16::MAX {
                rec.record(l, 70000 + n as u64, from_u16(n));
            }
        }
    });
    // ---- 32-bit: thorough = all 2^32 values of both types through the cheap exact route; quick = run-bounded + neighbours
    let v32: Vec<u32> = {
        let mut v: Vec<u32> = run_bounded(32, if quick { 4 } else { 6 }).into_iter().map(|x| x as u32).collect();
        for j in 0..32 {
            for d in [0u32, 1, 2] {
                v.push((1u32 << j).wrapping_add(d));
                v.push((1u32 << j).wrapping_sub(d));
            }
        }
        v.sort();
        v.dedup();
        v
    };
    let n32 = v32.len();
    r.par("from 32-bit (patterns)", n32.div_ceil(4096), 2 * n32 as u64, |c, l| {
        for i in (c * 4096)..((c + 1) * 4096).min(n32) {
            rec.record(l, (1 << 20) + 2 * i as u64, from_u32(v32[i]));
            rec.record(l, (1 << 20) + 2 * i as u64 + 1, from_i32(v32[i] as i32));
        }
    });
    if !quick {
        // all 2^32 values: TwoFloat::from(n) must be (n as f64, 0) — n is exactly representable, so this
        // is the exact-value clause; judged by the hardware conversion (exact for 32-bit integers)
        r.par("from 32-bit (all 2^32 values, both types)", 4096, 2u64 << 32, |c, l| {
            let lo = (c as u64) << 20;
            let mut bad: Option<u32> = None;
            for n in lo..lo + (1 << 20) {
                let n = n as u32;
                let a = <st::TF as From<u32>>::from(n);
                let b = <st::TF as From<i32>>::from(n as i32);
                if !(a.hi() == n as f64 && a.lo() == 0.0 && b.hi() == (n as i32) as f64 && b.lo() == 0.0) && bad.is_none() {
                    bad = Some(n);
                }
            }
            l.transitions += 2 << 20;
            if let Some(n) = bad {
                rec.record(l, (1 << 40) + n as u64, from_u32(n));
                rec.record(l, (1 << 40) + n as u64, from_i32(n as i32));
            }
        });
    }
    // ---- 64-bit and 128-bit
    let v64 = ints64(if quick { 3 } else { 5 });
    let n64 = v64.len();
    r.par("from 64-bit", n64.div_ceil(1024), 3 * n64 as u64, |c, l| {
        for i in (c * 1024)..((c + 1) * 1024).min(n64) {
            rec.record(l, (1 << 41) + 2 * i as u64, from_u64(v64[i]));
            rec.record(l, (1 << 41) + 2 * i as u64 + 1, from_i64(v64[i] as i64));
            rec.record(l, (1 << 43) + i as u64, from_ptr_sized(v64[i]));
        }
    });
    let v128 = ints128(if quick { 3 } else { 5 });
    let n128 = v128.len();
    r.par("from 128-bit", n128.div_ceil(1024), 2 * n128 as u64, |c, l| {
        for i in (c * 1024)..((c + 1) * 1024).min(n128) {
            rec.record(l, (1 << 42) + 2 * i as u64, from_u128(v128[i]));
            rec.record(l, (1 << 42) + 2 * i as u64 + 1, from_i128(v128[i] as i128));
        }
    });
    r.add_sample(json!({"call": "from_u128", "n": format!("{:#x}", v128[n128 / 2])}));
    // ---- TwoFloat -> integers / floats
    let xs = x_alphabet(quick);
    let nx = xs.len();
    r.add_sample(json!({"call": "to_i64 / to_u128 / ...", "x": show_dd(xs[nx / 3])}));
    r.par("to integer (10 types x 4 routes), to f64/f32", nx.div_ceil(512), nx as u64, |c, l| {
        for i in (c * 512)..((c + 1) * 512).min(nx) {
            judge_to_all(xs[i], l, &rec, (1 << 43) + i as u64);
        }
    });
    // ---- From<f32>
    let f32s: Vec<u32> = if quick {
        let mut v = vec![];
        for e in 0..=255u32 {
            for f in run_bounded(23, 3) {
                v.push((e << 23) | f as u32);
                v.push((1 << 31) | (e << 23) | f as u32);
            }
        }
        v
    } else {
        vec![]
    };
    if quick {
        let n = f32s.len();
        r.par("from f32 (patterns)", n.div_ceil(8192), n as u64, |c, l| {
            for i in (c * 8192)..((c + 1) * 8192).min(n) {
                rec.record(l, (1 << 44) + i as u64, judge_from_f32(f32::from_bits(f32s[i])));
            }
        });
    } else {
        r.par("from f32 (all 2^32 bit patterns)", 4096, 1u64 << 32, |c, l| {
            let lo = (c as u64) << 20;
            for n in lo..lo + (1 << 20) {
                let v = f32::from_bits(n as u32);
                if v.is_nan() {
                    continue;
                }
                let t = <st::TF as From<f32>>::from(v);
                if t.hi().to_bits() != (v as f64).to_bits() || t.lo() != 0.0 {
                    rec.record(l, (1 << 44) + n, judge_from_f32(v));
                } else {
                    l.transitions += 1;
                }
            }
        });
    }
    {
        let org = crate::organic::states(if quick { 1 } else { 2 });
        let no = org.len();
        r.notes.push(format!("organic operands: {} chain states (depth {} from the C01 seeds)", no, if quick { 1 } else { 2 }));
        r.par("organic operands (chain results) -> integers / floats", no.div_ceil(512), no as u64, |c, l| {
            for i in (c * 512)..((c + 1) * 512).min(no) {
                judge_to_all(org[i], l, &rec, (1u64 << 50) + i as u64);
            }
        });
    }
    {
        let gs = crate::fx::generic_stream(if quick { 200000 } else { 20000000 }, 109, -10, 130);
        let ngs = gs.len();
        r.notes.push(format!("generic stream for TwoFloat -> integers: {} operands of a fixed Weyl sequence (full-size mantissas in both words, exponents -10..130)", ngs));
        r.par("generic stream: TwoFloat -> integers", ngs.div_ceil(4096), ngs as u64, |c, l| {
            for i in (c * 4096)..((c + 1) * 4096).min(ngs) {
                judge_to_all(gs[i], l, &rec, (1u64 << 49) + i as u64);
            }
        });
    }
    {
        use crate::hist::HCall;
        // narrow and wide conversions of the same values, in every order (a shared truncation cache must not leak between them)
        let vals: Vec<[f64; 2]> = vec![[2f64.powi(62), 3.0], [5.0, 0.0], [2f64.powi(60), 1.0], [-0.5, 0.0], [9223372036854775807.0, -1.0], [300.75, 1e-14]];
        let mut groups: Vec<Vec<HCall>> = vec![];
        for w in vals.windows(2) {
            let mut g = vec![];
            for v in w {
                for k in [4u8, 6, 7, 8, 9] {
                    g.push(HCall::ext(k, *v, [0.0, 0.0]));
                }
            }
            groups.push(g);
        }
        crate::hist::explore(r, "histories: TwoFloat -> integer conversions (narrow and wide, two values)", &groups, 3, &hist_judge, 14u64 << 55);
        // cross-family histories: the same judged calls, preceded by every other public function on the same operands
        crate::hist::explore_mixed(r, "cross-family histories: any public call, then TwoFloat -> integer conversions (narrow and wide, two values)", &groups, 2, &hist_judge, (14u64 << 55) + (1u64 << 53));
    }
}
