//! C20 — text output and serde are lossless and cannot create invalid values.
use crate::api::st;
use crate::grid::{dd_grid, dedup};
use crate::run::{api, Runner, Verdict};
use crate::util::{hexf, show_dd, step};
use serde::de::value::{Error as DeError, MapDeserializer, SeqDeserializer};
use serde::ser::{Impossible, SerializeStruct};
use serde::{Deserialize, Serialize, Serializer};
use serde_json::json;
use st::TF;
use tfref::alpha::{gen_fracs, mk_f64, mk_subnormal, run_bounded};
use tfref::big::{dd_valid, dd_valid_fast};

// ------------------------------------------------------------------ text

const PRECS: [Option<usize>; 9] = [None, Some(0), Some(1), Some(2), Some(3), Some(6), Some(17), Some(20), Some(60)];

fn fmt_tf(x: &TF, tr: u8, plus: bool, p: Option<usize>) -> String {
    match (tr, plus, p) {
        (0, false, None) => format!("{}", x),
        (0, true, None) => format!("{:+}", x),
        (0, false, Some(p)) => format!("{:.*}", p, x),
        (0, true, Some(p)) => format!("{:+.*}", p, x),
        (1, false, None) => format!("{:e}", x),
        (1, true, None) => format!("{:+e}", x),
        (1, false, Some(p)) => format!("{:.*e}", p, x),
        (1, true, Some(p)) => format!("{:+.*e}", p, x),
        (_, false, None) => format!("{:E}", x),
        (_, true, None) => format!("{:+E}", x),
        (_, false, Some(p)) => format!("{:.*E}", p, x),
        (_, true, Some(p)) => format!("{:+.*E}", p, x),
    }
}
fn fmt_f64(x: f64, tr: u8, plus: bool, p: Option<usize>) -> String {
    match (tr, plus, p) {
        (0, false, None) => format!("{}", x),
        (0, true, None) => format!("{:+}", x),
        (0, false, Some(p)) => format!("{:.*}", p, x),
        (0, true, Some(p)) => format!("{:+.*}", p, x),
        (1, false, None) => format!("{:e}", x),
        (1, true, None) => format!("{:+e}", x),
        (1, false, Some(p)) => format!("{:.*e}", p, x),
        (1, true, Some(p)) => format!("{:+.*e}", p, x),
        (_, false, None) => format!("{:E}", x),
        (_, true, None) => format!("{:+E}", x),
        (_, false, Some(p)) => format!("{:.*E}", p, x),
        (_, true, Some(p)) => format!("{:+.*E}", p, x),
    }
}

pub fn judge_text(w: [f64; 2]) -> Verdict {
    judge_text_with(w, &PRECS)
}

/// precisions far beyond the 17 significant digits of an f64 (long outputs: a fixed-size buffer or a digit-count
/// assumption in the formatting code shows only here), used on a subset of the values
const BIG_PRECS: [Option<usize>; 6] = [Some(100), Some(217), Some(325), Some(512), Some(800), Some(1100)];

pub fn judge_text_big(w: [f64; 2]) -> Verdict {
    judge_text_with(w, &BIG_PRECS)
}

fn judge_text_with(w: [f64; 2], precs: &[Option<usize>]) -> Verdict {
    let args = [w[0].to_bits(), w[1].to_bits()];
    if !dd_valid_fast(w[0], w[1]) {
        return Verdict::Skip;
    }
    let x = st::mk(w);
    let names = ["Display", "LowerExp", "UpperExp"];
    for tr in 0..3u8 {
        for plus in [false, true] {
            for &p in precs {
                let got = match api(|| fmt_tf(&x, tr, plus, p)) {
                    Ok(s) => s,
                    Err(m) => return Verdict::fail("no_panic", names[tr as usize], &args, format!("panic: {}", m), "a string".into(), "panic"),
                };
                let sign = if w[1].is_sign_negative() { "-" } else { "+" };
                let want = format!("{} {} {}", fmt_f64(w[0], tr, plus, p), sign, fmt_f64(w[1].abs(), tr, false, p));
                let what = format!("{}{}{}", names[tr as usize], if plus { " +" } else { "" }, p.map(|p| format!(" .{}", p)).unwrap_or_default());
                if got != want {
                    return Verdict::fail("text_layout", names[tr as usize], &args, format!("[{}] {:?}", what, got), format!("{:?}", want), "wrong_text");
                }
                if p.is_none() {
                    // parse back
                    let toks: Vec<&str> = got.split(' ').collect();
                    let ok = toks.len() == 3
                        && toks[0].parse::<f64>().map(|v| v.to_bits()) == Ok(w[0].to_bits())
                        && toks[2].parse::<f64>().map(|v| v.to_bits()) == Ok(w[1].abs().to_bits())
                        && toks[1] == sign
                        && (!plus || toks[0].starts_with('+') || toks[0].starts_with('-'));
                    if !ok {
                        return Verdict::fail("text_roundtrip", names[tr as usize], &args, format!("[{}] {:?}", what, got), "numerals parse back to exactly hi and |lo|, sign char = sign bit of lo".into(), "not_lossless");
                    }
                }
            }
        }
    }
    Verdict::Pass
}

// ------------------------------------------------------------------ serde: recording serializer

#[derive(Debug, Default, Clone, PartialEq)]
pub struct Recorded {
    pub name: String,
    pub len: usize,
    pub fields: Vec<(String, u64)>,
    pub ended: bool,
}
#[derive(Debug)]
pub struct SerErr(String);
impl std::fmt::Display for SerErr {
    fn fmt(&self, f: &mut std::fmt::Formatter<'_>) -> std::fmt::Result {
        write!(f, "{}", self.0)
    }
}
impl std::error::Error for SerErr {}
impl serde::ser::Error for SerErr {
    fn custom<T: std::fmt::Display>(msg: T) -> Self {
        SerErr(msg.to_string())
    }
}

macro_rules! unsupported {
    ($($f:ident($($t:ty),*) -> $r:ty;)*) => { $( fn $f(self, $(_: $t),*) -> Result<$r, SerErr> { Err(SerErr(concat!("unexpected ", stringify!($f)).into())) } )* };
}

struct RecSer;
struct RecStruct(Recorded);
struct F64Ser;

impl Serializer for F64Ser {
    type Ok = u64;
    type Error = SerErr;
    type SerializeSeq = Impossible<u64, SerErr>;
    type SerializeTuple = Impossible<u64, SerErr>;
    type SerializeTupleStruct = Impossible<u64, SerErr>;
    type SerializeTupleVariant = Impossible<u64, SerErr>;
    type SerializeMap = Impossible<u64, SerErr>;
    type SerializeStruct = Impossible<u64, SerErr>;
    type SerializeStructVariant = Impossible<u64, SerErr>;
    fn serialize_f64(self, v: f64) -> Result<u64, SerErr> {
        Ok(v.to_bits())
    }
    unsupported! {
        serialize_bool(bool) -> u64; serialize_i8(i8) -> u64; serialize_i16(i16) -> u64; serialize_i32(i32) -> u64; serialize_i64(i64) -> u64;
        serialize_u8(u8) -> u64; serialize_u16(u16) -> u64; serialize_u32(u32) -> u64; serialize_u64(u64) -> u64; serialize_f32(f32) -> u64;
        serialize_char(char) -> u64; serialize_str(&str) -> u64; serialize_bytes(&[u8]) -> u64; serialize_none() -> u64; serialize_unit() -> u64;
        serialize_unit_struct(&'static str) -> u64; serialize_unit_variant(&'static str, u32, &'static str) -> u64;
        serialize_seq(Option<usize>) -> Self::SerializeSeq; serialize_tuple(usize) -> Self::SerializeTuple;
        serialize_tuple_struct(&'static str, usize) -> Self::SerializeTupleStruct;
        serialize_tuple_variant(&'static str, u32, &'static str, usize) -> Self::SerializeTupleVariant;
        serialize_map(Option<usize>) -> Self::SerializeMap; serialize_struct(&'static str, usize) -> Self::SerializeStruct;
        serialize_struct_variant(&'static str, u32, &'static str, usize) -> Self::SerializeStructVariant;
    }
    fn serialize_some<T: ?Sized + Serialize>(self, _: &T) -> Result<u64, SerErr> {
        Err(SerErr("unexpected some".into()))
    }
    fn serialize_newtype_struct<T: ?Sized + Serialize>(self, _: &'static str, _: &T) -> Result<u64, SerErr> {
        Err(SerErr("unexpected newtype".into()))
    }
    fn serialize_newtype_variant<T: ?Sized + Serialize>(self, _: &'static str, _: u32, _: &'static str, _: &T) -> Result<u64, SerErr> {
        Err(SerErr("unexpected newtype variant".into()))
    }
}

impl Serializer for RecSer {
    type Ok = Recorded;
    type Error = SerErr;
    type SerializeSeq = Impossible<Recorded, SerErr>;
    type SerializeTuple = Impossible<Recorded, SerErr>;
    type SerializeTupleStruct = Impossible<Recorded, SerErr>;
    type SerializeTupleVariant = Impossible<Recorded, SerErr>;
    type SerializeMap = Impossible<Recorded, SerErr>;
    type SerializeStruct = RecStruct;
    type SerializeStructVariant = Impossible<Recorded, SerErr>;
    fn serialize_struct(self, name: &'static str, len: usize) -> Result<RecStruct, SerErr> {
        Ok(RecStruct(Recorded { name: name.to_string(), len, fields: vec![], ended: false }))
    }
    unsupported! {
        serialize_bool(bool) -> Recorded; serialize_i8(i8) -> Recorded; serialize_i16(i16) -> Recorded; serialize_i32(i32) -> Recorded; serialize_i64(i64) -> Recorded;
        serialize_u8(u8) -> Recorded; serialize_u16(u16) -> Recorded; serialize_u32(u32) -> Recorded; serialize_u64(u64) -> Recorded; serialize_f32(f32) -> Recorded; serialize_f64(f64) -> Recorded;
        serialize_char(char) -> Recorded; serialize_str(&str) -> Recorded; serialize_bytes(&[u8]) -> Recorded; serialize_none() -> Recorded; serialize_unit() -> Recorded;
        serialize_unit_struct(&'static str) -> Recorded; serialize_unit_variant(&'static str, u32, &'static str) -> Recorded;
        serialize_seq(Option<usize>) -> Self::SerializeSeq; serialize_tuple(usize) -> Self::SerializeTuple;
        serialize_tuple_struct(&'static str, usize) -> Self::SerializeTupleStruct;
        serialize_tuple_variant(&'static str, u32, &'static str, usize) -> Self::SerializeTupleVariant;
        serialize_map(Option<usize>) -> Self::SerializeMap;
        serialize_struct_variant(&'static str, u32, &'static str, usize) -> Self::SerializeStructVariant;
    }
    fn serialize_some<T: ?Sized + Serialize>(self, _: &T) -> Result<Recorded, SerErr> {
        Err(SerErr("unexpected some".into()))
    }
    fn serialize_newtype_struct<T: ?Sized + Serialize>(self, _: &'static str, _: &T) -> Result<Recorded, SerErr> {
        Err(SerErr("unexpected newtype".into()))
    }
    fn serialize_newtype_variant<T: ?Sized + Serialize>(self, _: &'static str, _: u32, _: &'static str, _: &T) -> Result<Recorded, SerErr> {
        Err(SerErr("unexpected newtype variant".into()))
    }
}
impl SerializeStruct for RecStruct {
    type Ok = Recorded;
    type Error = SerErr;
    fn serialize_field<T: ?Sized + Serialize>(&mut self, key: &'static str, value: &T) -> Result<(), SerErr> {
        let w = value.serialize(F64Ser)?;
        self.0.fields.push((key.to_string(), w));
        Ok(())
    }
    fn end(mut self) -> Result<Recorded, SerErr> {
        self.0.ended = true;
        Ok(self.0)
    }
}

// ------------------------------------------------------------------ serde: environment scripts

#[derive(Clone, Debug)]
pub enum Script {
    Seq(Vec<f64>),
    Map(Vec<(u8, f64)>), // key: index into KEYS; 0 = "hi", 1 = "lo", everything else is an unknown field
}
/// "hi", "lo", a plainly unknown name, and near misses of the two field names (case, padding, prefixes, suffixes,
/// look-alikes): every one of them except the first two is an unknown field
const KEYS: [&str; 24] = ["hi", "lo", "mid", "HI", "Hi", "hI", "LO", "Lo", "lO", "hi ", " hi", "lo ", "h", "l", "high", "low", "hi_", "_lo", "", "hilo", "hi\0", "lo\0", "h\u{456}", "1o"];

fn run_script(s: &Script) -> Result<Result<TF, String>, String> {
    api(|| match s {
        Script::Seq(v) => TF::deserialize(SeqDeserializer::<_, DeError>::new(v.clone().into_iter())).map_err(|e| e.to_string()),
        Script::Map(v) => TF::deserialize(MapDeserializer::<_, DeError>::new(v.iter().map(|(k, x)| (KEYS[*k as usize], *x)))).map_err(|e| e.to_string()),
    })
}

/// the acceptance predicate: Some((hi, lo)) if the input must be accepted with these words,
/// None if it must be rejected; `no_claim` for over-long sequences (the data format's business)
fn script_spec(s: &Script) -> (Option<[f64; 2]>, bool) {
    match s {
        Script::Seq(v) => {
            if v.len() == 2 {
                (if dd_valid(v[0], v[1]) { Some([v[0], v[1]]) } else { None }, false)
            } else if v.len() < 2 {
                (None, false)
            } else {
                (None, true)
            }
        }
        Script::Map(v) => {
            let his: Vec<f64> = v.iter().filter(|e| e.0 == 0).map(|e| e.1).collect();
            let los: Vec<f64> = v.iter().filter(|e| e.0 == 1).map(|e| e.1).collect();
            let unk = v.iter().any(|e| e.0 >= 2);
            if !unk && his.len() == 1 && los.len() == 1 && dd_valid(his[0], los[0]) {
                (Some([his[0], los[0]]), false)
            } else {
                (None, false)
            }
        }
    }
}

fn script_args(s: &Script) -> Vec<u64> {
    match s {
        Script::Seq(v) => std::iter::once(0u64).chain(v.iter().map(|x| x.to_bits())).collect(),
        Script::Map(v) => std::iter::once(1u64).chain(v.iter().flat_map(|(k, x)| [*k as u64, x.to_bits()])).collect(),
    }
}
fn script_from_args(a: &[u64]) -> Script {
    if a[0] == 0 {
        Script::Seq(a[1..].iter().map(|w| f64::from_bits(*w)).collect())
    } else {
        Script::Map(a[1..].chunks(2).map(|c| (c[0] as u8, f64::from_bits(c[1]))).collect())
    }
}

pub fn judge_script(s: &Script) -> Verdict {
    let args = script_args(s);
    let (want, no_claim) = script_spec(s);
    let desc = format!("{:?}", s);
    match run_script(s) {
        Err(m) => Verdict::fail("no_panic", "deserialize", &args, format!("panic: {} on {}", m, desc), "Ok or Err".into(), "panic"),
        Ok(Ok(t)) => {
            let w = [t.hi(), t.lo()];
            if !dd_valid_fast(w[0], w[1]) {
                return Verdict::fail("never_invalid", "deserialize", &args, format!("Ok({}) from {}", show_dd(w), desc), "an error (words overlap or are non-finite)".into(), "accepted_invalid");
            }
            match want {
                Some(e) => {
                    if w[0].to_bits() != e[0].to_bits() || w[1].to_bits() != e[1].to_bits() {
                        return Verdict::fail("bit_identical", "deserialize", &args, format!("Ok({}) from {}", show_dd(w), desc), format!("Ok({})", show_dd(e)), "words_changed");
                    }
                    Verdict::Pass
                }
                None if no_claim => Verdict::Pass,
                None => Verdict::fail("reject_malformed", "deserialize", &args, format!("Ok({}) from {}", show_dd(w), desc), "an error (missing / duplicate / unknown field)".into(), "accepted_malformed"),
            }
        }
        Ok(Err(e)) => match want {
            Some(w) => Verdict::fail("accept_valid", "deserialize", &args, format!("Err({}) from {}", e, desc), format!("Ok({})", show_dd(w)), "rejected_valid"),
            None => Verdict::Pass,
        },
    }
}

/// serialise a valid value with the recording serializer, then feed the recorded output back
pub fn judge_ser(w: [f64; 2]) -> Verdict {
    let args = [w[0].to_bits(), w[1].to_bits()];
    if !dd_valid_fast(w[0], w[1]) {
        return Verdict::Skip;
    }
    let x = st::mk(w);
    let rec = match api(|| x.serialize(RecSer)) {
        Err(m) => return Verdict::fail("no_panic", "serialize", &args, format!("panic: {}", m), "a struct".into(), "panic"),
        Ok(Err(e)) => return Verdict::fail("serialize_struct", "serialize", &args, format!("error: {}", e), "struct TwoFloat {hi, lo}".into(), "wrong_shape"),
        Ok(Ok(r)) => r,
    };
    let want = Recorded { name: "TwoFloat".into(), len: 2, fields: vec![("hi".into(), w[0].to_bits()), ("lo".into(), w[1].to_bits())], ended: true };
    if rec != want {
        return Verdict::fail("serialize_struct", "serialize", &args, format!("{:?}", rec), format!("{:?}", want), "wrong_shape");
    }
    // feed the output back: sequence, map, map in the other field order
    let hi = f64::from_bits(rec.fields[0].1);
    let lo = f64::from_bits(rec.fields[1].1);
    for s in [Script::Seq(vec![hi, lo]), Script::Map(vec![(0, hi), (1, lo)]), Script::Map(vec![(1, lo), (0, hi)])] {
        let v = judge_script(&s);
        if v.is_fail() {
            return v;
        }
    }
    Verdict::Pass
}

/// history for the text path: format `prev`, then `w`, with the same trait / flag / precision, on a fresh thread; the
/// text of `w` must be what it is on an empty history (a cache of the last rendering keyed on `==` would confuse
/// values that differ only in the sign of a zero word)
pub fn judge_text_after(prev: [f64; 2], w: [f64; 2]) -> Verdict {
    let args = [prev[0].to_bits(), prev[1].to_bits(), w[0].to_bits(), w[1].to_bits()];
    if !dd_valid_fast(w[0], w[1]) || !dd_valid_fast(prev[0], prev[1]) {
        return Verdict::Skip;
    }
    let names = ["Display", "LowerExp", "UpperExp"];
    let r = std::thread::scope(|sc| {
        sc.spawn(|| {
            let (xp, x) = (st::mk(prev), st::mk(w));
            for tr in 0..3u8 {
                for plus in [false, true] {
                    for p in [None, Some(0usize), Some(2), Some(17)] {
                        let got = match api(|| {
                            let _ = fmt_tf(&xp, tr, plus, p);
                            fmt_tf(&x, tr, plus, p)
                        }) {
                            Ok(s) => s,
                            Err(m) => return Verdict::fail("history: no_panic", "hist_text", &args, format!("panic: {}", m), "a string".into(), "panic"),
                        };
                        let sign = if w[1].is_sign_negative() { "-" } else { "+" };
                        let want = format!("{} {} {}", fmt_f64(w[0], tr, plus, p), sign, fmt_f64(w[1].abs(), tr, false, p));
                        if got != want {
                            return Verdict::fail("history: text_layout", "hist_text", &args, format!("[{}{} {:?}] {:?} right after formatting {} the same way", names[tr as usize], if plus { " +" } else { "" }, p, got, show_dd(prev)), format!("{:?}", want), "wrong_text");
                        }
                    }
                }
            }
            Verdict::Pass
        })
        .join()
    });
    r.unwrap_or_else(|_| Verdict::fail("history: no_panic", "hist_text", &args, "the judge panicked".into(), "a verdict".into(), "panic"))
}

pub fn replay(call: &str, _clause: &str, args: &[u64]) -> Verdict {
    match call {
        "deserialize" => judge_script(&script_from_args(args)),
        "serialize" => judge_ser([f64::from_bits(args[0]), f64::from_bits(args[1])]),
        "hist_text" => judge_text_after([f64::from_bits(args[0]), f64::from_bits(args[1])], [f64::from_bits(args[2]), f64::from_bits(args[3])]),
        _ => {
            // a text transition: the ordinary precisions first, then the long ones (a recorded violation may come from either phase)
            let w = [f64::from_bits(args[0]), f64::from_bits(args[1])];
            let v = judge_text(w);
            if v.is_fail() {
                v
            } else {
                judge_text_big(w)
            }
        }
    }
}

pub fn run(r: &mut Runner) {
    let quick = r.quick();
    let rec = r.recorder();
    // ---- valid values for text and serialisation
    let mut hf = run_bounded(52, if quick { 1 } else { 2 });
    hf.extend(gen_fracs(if quick { 3 } else { 6 }));
    hf.push(1u64 << 51);
    let exps: Vec<i32> = if quick { (-1022..=1023).step_by(31).chain([-1022, -60, -4, -1, 0, 1, 3, 10, 16, 17, 53, 60, 1023]).collect() } else { (-1022..=1023).step_by(3).chain([-1022, 1023]).collect() };
    let lf = vec![0u64, (1u64 << 52) - 1, gen_fracs(1)[0]];
    let mut vals = dd_grid(&exps, &hf, &[0, 1, 10, 53, 200], &lf, &[5e-324, 1e-310, 2f64.powi(-1022), 0.3, 1e-5, 1e16, 1e17]);
    for w in [[0.0, 0.0], [-0.0, 0.0], [0.0, -0.0], [-0.0, -0.0], [1.0, 0.3e-16], [0.1, -5.551115123125783e-18], [1e16, 0.5], [1e21, -1.0], [1e-7, 1e-30], [123456.0, -0.0], [f64::MAX, 2f64.powi(969)], [5e-324, 0.0], [-5e-324, -0.0]] {
        vals.push(w);
    }
    for &f in &run_bounded(52, 1) {
        vals.push([mk_subnormal(false, f.max(1)), 0.0]);
        vals.push([mk_subnormal(true, f.max(1)), -0.0]);
    }
    dedup(&mut vals);
    vals.retain(|w| dd_valid_fast(w[0], w[1]));
    let n = vals.len();
    r.notes.push(format!("{} valid values (all exponent strata, negative-zero and subnormal low words) x 3 format traits x {{plain,+}} x 9 precisions; each serialised with a recording Serializer and fed back as sequence / map / reversed map", n));
    r.add_sample(json!({"x": show_dd(vals[n / 2]), "Display": format!("{}", st::mk(vals[n / 2])), "LowerExp+.3": format!("{:+.3e}", st::mk(vals[n / 2]))}));
    r.par("text: Display/LowerExp/UpperExp x flags x precision", n.div_ceil(256), n as u64, |c, l| {
        for i in (c * 256)..((c + 1) * 256).min(n) {
            let v = judge_text(vals[i]);
            if !v.is_fail() {
                l.transitions += 53; // 54 format calls per value, one counted by record()
            }
            rec.record(l, i as u64, v);
        }
    });
    {
        let mut big: Vec<[f64; 2]> = vec![[f64::MAX, 2f64.powi(969)], [-f64::MAX, -2f64.powi(969)], [1.2345e300, 6.789e283], [1e250, 1e233], [1e200, -1e183], [1.5, 1e-17], [3e-300, 1e-320], [5e-324, 0.0], [1.0, 0.0], [-123456.789, 1e-12], [2f64.powi(52) + 1.0, 0.5], [1e22, -1e5], [0.0, 0.0], [-0.0, 0.0]];
        big.extend(vals.iter().step_by(97).cloned());
        big.retain(|w| dd_valid_fast(w[0], w[1]));
        let nb = big.len();
        r.notes.push(format!("long outputs: {} values (largest and smallest magnitudes, every 97th value of the main set) x 3 format traits x {{plain,+}} x precisions 100, 217, 325, 512, 800, 1100", nb));
        r.par("text: precisions 100..1100", nb.div_ceil(16), nb as u64, |c, l| {
            for i in (c * 16)..((c + 1) * 16).min(nb) {
                l.transitions += 35;
                rec.record(l, (1u64 << 39) + i as u64, judge_text_big(big[i]));
            }
        });
    }
    r.par("serialize + feed back (seq, map, reversed map)", n.div_ceil(256), n as u64, |c, l| {
        for i in (c * 256)..((c + 1) * 256).min(n) {
            let v = judge_ser(vals[i]);
            if !v.is_fail() {
                l.transitions += 3;
            }
            rec.record(l, (1 << 40) + i as u64, v);
        }
    });
    // ---- environment scripts: every sequence of 0..=3 elements and every map of 0..=3 entries
    let alpha: Vec<f64> = vec![1.0, 2f64.powi(-53), -2f64.powi(-54), 2f64.powi(-52), 1.0 + 2f64.powi(-52), 0.0, -0.0, 5e-324, f64::INFINITY, f64::NEG_INFINITY, f64::NAN, 1e300, -2f64.powi(-60)];
    let na = alpha.len();
    let mut scripts: Vec<Script> = vec![];
    for len in 0..=3usize {
        let cnt = na.pow(len as u32);
        for t in 0..cnt {
            let mut rem = t;
            let mut v = vec![];
            for _ in 0..len {
                v.push(alpha[rem % na]);
                rem /= na;
            }
            scripts.push(Script::Seq(v.clone()));
            // maps: every key assignment
            let kc = 3usize.pow(len as u32);
            for kt in 0..kc {
                let mut kr = kt;
                let mut m = vec![];
                for i in 0..len {
                    m.push(((kr % 3) as u8, v[i]));
                    kr /= 3;
                }
                scripts.push(Script::Map(m));
            }
        }
    }
    // near misses of the field names: {near: a, lo: b}, {hi: a, near: b}, {near: a, near: b}, {hi: a, lo: b, near: c}, {near: c, hi: a, lo: b}
    for k in 3..KEYS.len() as u8 {
        for (a, b) in [(1.0, 2f64.powi(-60)), (1.0, 0.0), (-3.5, 2f64.powi(-55))] {
            scripts.push(Script::Map(vec![(k, a), (1, b)]));
            scripts.push(Script::Map(vec![(0, a), (k, b)]));
            scripts.push(Script::Map(vec![(1, b), (k, a)]));
            scripts.push(Script::Map(vec![(k, a), (k, b)]));
            scripts.push(Script::Map(vec![(0, a), (1, b), (k, 7.0)]));
            scripts.push(Script::Map(vec![(k, 7.0), (0, a), (1, b)]));
            scripts.push(Script::Map(vec![(k, a)]));
        }
    }
    let ns = scripts.len();
    r.notes.push(format!("{} environment scripts: all sequences of 0..3 elements and all maps of 0..3 entries over keys {{hi, lo, unknown}} in every order, plus maps using 21 near misses of the field names (case variants, padding, prefixes, look-alikes), values from a {}-element f64 alphabet (valid pair, tie with odd/even high word, overlapping, +-0, subnormal, +-inf, NaN)", ns, na));
    r.add_sample(json!({"script": format!("{:?}", scripts[ns / 2])}));
    r.add_sample(json!({"script": format!("{:?}", scripts[ns - 7])}));
    r.par("deserialize: environment scripts", ns.div_ceil(1024), ns as u64, |c, l| {
        for i in (c * 1024)..((c + 1) * 1024).min(ns) {
            let v = judge_script(&scripts[i]);
            if let Verdict::Pass = v {
                l.count(if script_spec(&scripts[i]).0.is_some() { "accepted" } else { "rejected_or_no_claim" }, 1);
            }
            rec.record(l, (1 << 41) + i as u64, v);
        }
    });
    // ---- (hi, lo) validity alphabet through the deserializer: every exponent of hi, lo at every threshold
    let mut his: Vec<f64> = vec![];
    let fr: Vec<u64> = vec![0, 1, (1u64 << 52) - 1, (1u64 << 52) - 2, 1u64 << 51];
    for e in (-1022..=1023).step_by(if quick { 3 } else { 1 }).chain([-1021, -1020, -970, -969, 1021, 1022, 1023]) {
        for &f in &fr {
            for s in [false, true] {
                his.push(mk_f64(s, e, f).unwrap());
            }
        }
    }
    // every single set / single cleared fraction bit (a one-bit slip in a mask used by the validity test) at a few exponents
    for e in [-1022, -500, -1, 0, 1, 53, 500, 1023] {
        for p in 0..52 {
            for f in [1u64 << p, ((1u64 << 52) - 1) ^ (1u64 << p)] {
                for s in [false, true] {
                    his.push(mk_f64(s, e, f).unwrap());
                }
            }
        }
    }
    for f in [1u64, 2, (1u64 << 52) - 1] {
        his.push(mk_subnormal(false, f));
        his.push(mk_subnormal(true, f));
    }
    his.extend([0.0, -0.0, f64::INFINITY, f64::NEG_INFINITY, f64::NAN]);
    let nh = his.len();
    r.notes.push(format!("{} high words (every{} normal exponent x 5 fractions x 2 signs, subnormals, zeros, infinities, NaN), each with low words at / around the half-ulp and quarter-ulp thresholds, zeros, infinities, NaN; presented as sequence and as map in both orders", nh, if quick { " third" } else { "" }));
    r.par("deserialize: (hi, lo) pairs at every threshold", nh.div_ceil(64), 0, |c, l| {
        for i in (c * 64)..((c + 1) * 64).min(nh) {
            let a = his[i];
            let mut los: Vec<f64> = vec![0.0, -0.0, f64::INFINITY, f64::NEG_INFINITY, f64::NAN, 5e-324, -5e-324, a, -a, f64::MAX, f64::MIN, 1e300, -1e300, 2f64.powi(971), -2f64.powi(971)];
            if a.is_finite() && a != 0.0 {
                let e = crate::grid::exp_of(a);
                for j in -2..=1 {
                    let te = e - 53 + j;
                    if te >= -1074 {
                        let t = tfref::big::pow2_f64(te);
                        for k in -2..=2 {
                            los.push(step(t, k));
                            los.push(-step(t, k));
                        }
                    }
                }
            }
            for (j, &b) in los.iter().enumerate() {
                for (k, s) in [Script::Seq(vec![a, b]), Script::Map(vec![(0, a), (1, b)]), Script::Map(vec![(1, b), (0, a)])].iter().enumerate() {
                    let v = judge_script(s);
                    if let Verdict::Pass = v {
                        l.count(if script_spec(s).0.is_some() { "accepted" } else { "rejected_or_no_claim" }, 1);
                    }
                    rec.record(l, (1 << 42) + ((i * 64 + j) * 3 + k) as u64, v);
                }
            }
        }
    });
    r.states += r.transitions.min(u64::MAX) / 3;
    let _ = hexf(1.0);
    {
        let org = crate::organic::states(if quick { 1 } else { 2 });
        let no = org.len();
        r.notes.push(format!("organic operands: {} chain states (depth {} from the C01 seeds)", no, if quick { 1 } else { 2 }));
        r.par("organic operands (chain results): text + serialize", no.div_ceil(256), no as u64, |c, l| {
            for i in (c * 256)..((c + 1) * 256).min(no) {
                rec.record(l, (1u64 << 60) + (i * 2) as u64, judge_text(org[i]));
                rec.record(l, (1u64 << 60) + (i * 2 + 1) as u64, judge_ser(org[i]));
            }
        });
    }
    {
        let gs = crate::fx::generic_stream(if quick { 20000 } else { 2000000 }, 120, -1022, 1023);
        let ngs = gs.len();
        r.notes.push(format!("generic stream for text + serialize: {} operands of a fixed Weyl sequence (full-size mantissas in both words, exponents -1022..1023)", ngs));
        r.par("generic stream: text + serialize", ngs.div_ceil(256), ngs as u64, |c, l| {
            for i in (c * 256)..((c + 1) * 256).min(ngs) {
                rec.record(l, (1u64 << 58) + (i * 2) as u64, judge_text(gs[i]));
                rec.record(l, (1u64 << 58) + (i * 2 + 1) as u64, judge_ser(gs[i]));
            }
        });
    }
    {
        // histories of the text path: every ordered pair of values that are equal under == word by word or share a high
        // word (sign-of-zero twins, low-word twins), formatted one after the other with identical flags
        let mut fam: Vec<Vec<[f64; 2]>> = vec![];
        for h in [1.0, -1e-300, 0.0, 123.5, 1e22] {
            let e = if h == 0.0 { 0.0 } else { h * 2f64.powi(-60) };
            let mut g: Vec<[f64; 2]> = vec![[h, 0.0], [h, -0.0], [-h, 0.0], [-h, -0.0], [h, e], [h, -e]];
            g.retain(|w| dd_valid_fast(w[0], w[1]));
            fam.push(g);
        }
        let pairs: Vec<([f64; 2], [f64; 2])> = fam.iter().flat_map(|g| g.iter().flat_map(move |a| g.iter().map(move |b| (*a, *b)))).collect();
        let np = pairs.len();
        r.notes.push(format!("text histories: {} ordered pairs of twin values (same words under ==, signs of zero words, low-word twins) x 3 traits x {{plain,+}} x 4 precisions, the second value formatted right after the first on a fresh thread", np));
        r.par("histories: text of twin values", np.div_ceil(8), np as u64, |c, l| {
            for i in (c * 8)..((c + 1) * 8).min(np) {
                l.transitions += 23;
                rec.record(l, (1u64 << 38) + i as u64, judge_text_after(pairs[i].0, pairs[i].1));
            }
        });
    }
}
