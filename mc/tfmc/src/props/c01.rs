//! C01 — every result is a normalised double-double or carries a non-finite high word;
//! preserved along chains of operations.
use crate::api::{st, Op, Res};
use crate::grid::{dd_grid, dedup};
use crate::run::{api, Local, Recorder, Runner, Verdict};
use crate::util::show_dd;
use serde_json::json;
use std::sync::Mutex;
use tfref::alpha::{gen_fracs, run_bounded, weyl_fracs};
use tfref::big::{dd_valid, dd_valid_fast, Dy};

fn hi_in_range(h: f64) -> bool {
    h == 0.0 || (h.is_finite() && h.abs() >= 2f64.powi(-1000) && h.abs() <= 2f64.powi(1000))
}
/// an operand the property makes a claim about
pub fn claimed_operand(w: [f64; 2]) -> bool {
    dd_valid_fast(w[0], w[1]) && hi_in_range(w[0])
}

/// is this transition inside the claim? (constructor provisos)
fn in_claim(op: Op, a: [f64; 2], b: [f64; 2]) -> bool {
    if op.is_ctor() {
        if !hi_in_range(a[0]) || (op != Op::from_f64 && !hi_in_range(b[0])) {
            return false;
        }
        match op {
            Op::new_mul => {
                let p = Dy::prod_f64(a[0], b[0]);
                p.is_zero() || p.msb().unwrap() >= -960
            }
            Op::new_div => {
                if b[0] == 0.0 {
                    return true; // exact quotient undefined: result must be non-finite or valid anyway
                }
                // |a/b| == 0 or >= 2^-960
                a[0] == 0.0 || Dy::from_f64(a[0]).cmp_abs(&Dy::from_f64(b[0]).mul_pow2(-960)) != core::cmp::Ordering::Less
            }
            _ => true,
        }
    } else if op.arity() == 1 {
        claimed_operand(a)
    } else if op.rhs_f64() {
        claimed_operand(a) && hi_in_range(b[0])
    } else if op == Op::powi {
        claimed_operand(a)
    } else {
        claimed_operand(a) && claimed_operand(b)
    }
}

fn ok_result(w: [f64; 2]) -> bool {
    !w[0].is_finite() || dd_valid_fast(w[0], w[1])
}

/// Judge one transition: op applied to (a, b)
pub fn judge(op: Op, a: [f64; 2], b: [f64; 2]) -> (Verdict, Res) {
    let r = st::call(op, a, b);
    if !in_claim(op, a, b) {
        return (Verdict::Skip, r);
    }
    let args = [a[0].to_bits(), a[1].to_bits(), b[0].to_bits(), b[1].to_bits()];
    let bad = |w: [f64; 2]| -> Verdict {
        // confirm with the exact predicate before reporting
        let exact_valid = w[0].is_finite() && w[1].is_finite() && dd_valid(w[0], w[1]);
        if !w[0].is_finite() || exact_valid {
            return Verdict::Pass;
        }
        let sig = if !w[1].is_finite() { "finite_hi_nonfinite_lo" } else { "overlapping_words" };
        Verdict::fail("normalised_or_nonfinite_hi", op.name(), &args, show_dd(w), "is_valid() or a non-finite high word".into(), sig)
    };
    match r.k {
        0 => {
            let w = r.dd();
            if ok_result(w) {
                // "valid ... i.e. is_valid()": the library's own predicate must say so too
                if w[0].is_finite() && !st::mk(w).is_valid() {
                    return (Verdict::fail("is_valid_agrees", op.name(), &args, format!("{} is normalised but is_valid() == false", show_dd(w)), "is_valid() == true".into(), "is_valid_false"), r);
                }
                (Verdict::Pass, r)
            } else {
                (bad(w), r)
            }
        }
        2 => {
            let w1 = [f64::from_bits(r.w[0]), f64::from_bits(r.w[1])];
            let w2 = [f64::from_bits(r.w[2]), f64::from_bits(r.w[3])];
            if ok_result(w1) && ok_result(w2) {
                (Verdict::Pass, r)
            } else if !ok_result(w1) {
                (bad(w1), r)
            } else {
                (bad(w2), r)
            }
        }
        // a panic produces no value: nothing for this property to judge (C13-C15, C18 own the no-panic clauses)
        _ => (Verdict::Skip, r),
    }
}

pub fn hist_judge(c: &crate::hist::HCall, _l: Option<&mut Local>) -> Verdict {
    match c.as_op() {
        Some(op) => judge(op, c.a, c.b).0,
        None => Verdict::Skip,
    }
}

pub fn replay(call: &str, _clause: &str, args: &[u64]) -> Verdict {
    if call == "hist" {
        return crate::hist::replay(args, &hist_judge);
    }
    if let Some(rest) = call.strip_prefix("from_") {
        if rest != "f64" {
            return judge_from_int(rest, (args[0] as u128) | ((args[1] as u128) << 64));
        }
    }
    if call == "const" {
        return judge_consts();
    }
    if call == "numcast" {
        return judge_cast([f64::from_bits(args[0]), f64::from_bits(args[1])]);
    }
    if call == "try_from_tuple" || call == "try_from_array" {
        use core::convert::TryFrom;
        let (a, b) = (f64::from_bits(args[0]), f64::from_bits(args[1]));
        let res = if call == "try_from_tuple" { st::TF::try_from((a, b)).ok() } else { st::TF::try_from([a, b]).ok() };
        return match res {
            Some(t) if !ok_result([t.hi(), t.lo()]) => Verdict::fail("normalised_or_nonfinite_hi", if call == "try_from_tuple" { "try_from_tuple" } else { "try_from_array" }, args, show_dd([t.hi(), t.lo()]), "Err, or a valid TwoFloat".into(), "overlapping_words"),
            _ => Verdict::Pass,
        };
    }
    let op = Op::from_name(call).expect("unknown op");
    judge(op, [f64::from_bits(args[0]), f64::from_bits(args[1])], [f64::from_bits(args[2]), f64::from_bits(args[3])]).0
}

fn judge_from_int(ty: &str, w: u128) -> Verdict {
    use num_traits::{FromPrimitive, NumCast};
    use st::TF;
    // every route from an integer to a TwoFloat: From, FromPrimitive, NumCast
    macro_rules! routes {
        ($t:ty, $fp:ident) => {{
            let n = w as $t;
            [Some(<TF as From<$t>>::from(n)), <TF as FromPrimitive>::$fp(n), <TF as NumCast>::from(n)]
        }};
    }
    let res = api(|| match ty {
        "i8" => routes!(i8, from_i8),
        "u8" => routes!(u8, from_u8),
        "i16" => routes!(i16, from_i16),
        "u16" => routes!(u16, from_u16),
        "i32" => routes!(i32, from_i32),
        "u32" => routes!(u32, from_u32),
        "i64" => routes!(i64, from_i64),
        "u64" => routes!(u64, from_u64),
        "i128" => routes!(i128, from_i128),
        _ => routes!(u128, from_u128),
    });
    let name: &'static str = match ty {
        "i8" => "from_i8",
        "u8" => "from_u8",
        "i16" => "from_i16",
        "u16" => "from_u16",
        "i32" => "from_i32",
        "u32" => "from_u32",
        "i64" => "from_i64",
        "u64" => "from_u64",
        "i128" => "from_i128",
        _ => "from_u128",
    };
    let args = [w as u64, (w >> 64) as u64];
    match res {
        Err(m) => Verdict::fail("no_panic", name, &args, format!("panic: {}", m), "a value".into(), "panic"),
        Ok(rs) => {
            for (route, t) in ["TwoFloat::from", "FromPrimitive", "NumCast::from"].iter().zip(rs.iter()) {
                if let Some(t) = t {
                    let r = [t.hi(), t.lo()];
                    if !ok_result(r) {
                        return Verdict::fail("normalised_or_nonfinite_hi", name, &args, format!("{}: {}", route, show_dd(r)), "is_valid()".into(), "overlapping_words");
                    }
                }
            }
            Verdict::Pass
        }
    }
}

/// float / TwoFloat sources through the num_traits conversion routes (NumCast from a TwoFloat, an f64 or an f32;
/// FromPrimitive::from_f64 / from_f32; From<f32>): whatever they return must be normalised
fn judge_cast(x: [f64; 2]) -> Verdict {
    use num_traits::{FromPrimitive, NumCast};
    use st::TF;
    let args = [x[0].to_bits(), x[1].to_bits()];
    let t = st::mk(x);
    let res = api(|| [<TF as NumCast>::from(t), <TF as NumCast>::from(x[0]), <TF as NumCast>::from(x[0] as f32), <TF as FromPrimitive>::from_f64(x[0]), <TF as FromPrimitive>::from_f32(x[0] as f32), Some(<TF as From<f32>>::from(x[0] as f32))]);
    match res {
        Err(m) => Verdict::fail("no_panic", "numcast", &args, format!("panic: {}", m), "a value".into(), "panic"),
        Ok(rs) => {
            for (route, t) in ["NumCast::from(TwoFloat)", "NumCast::from(f64)", "NumCast::from(f32)", "FromPrimitive::from_f64", "FromPrimitive::from_f32", "From<f32>"].iter().zip(rs.iter()) {
                if let Some(t) = t {
                    let r = [t.hi(), t.lo()];
                    if !ok_result(r) {
                        return Verdict::fail("normalised_or_nonfinite_hi", "numcast", &args, format!("{}: {}", route, show_dd(r)), "is_valid()".into(), "overlapping_words");
                    }
                }
            }
            Verdict::Pass
        }
    }
}

fn judge_consts() -> Verdict {
    use twofloat::consts as c;
    let list = [c::E, c::FRAC_1_PI, c::FRAC_2_PI, c::FRAC_2_SQRT_PI, c::FRAC_1_SQRT_2, c::FRAC_PI_2, c::FRAC_PI_3, c::FRAC_PI_4, c::FRAC_PI_6, c::FRAC_PI_8, c::LN_2, c::LN_10, c::LOG2_E, c::LOG10_E, c::LOG10_2, c::LOG2_10, c::PI, c::SQRT_2, c::TAU, st::TF::MAX, st::TF::MIN, st::TF::MIN_POSITIVE, st::TF::EPSILON];
    for (i, k) in list.iter().enumerate() {
        if !ok_result([k.hi(), k.lo()]) {
            return Verdict::fail("normalised_or_nonfinite_hi", "const", &[i as u64], show_dd([k.hi(), k.lo()]), "is_valid()".into(), "overlapping_words");
        }
    }
    Verdict::Pass
}

pub fn chain_ops() -> (Vec<Op>, Vec<Op>) {
    let mut un = vec![];
    let mut bin = vec![];
    for &op in Op::ALL {
        if op == Op::powi || op == Op::from_f64 {
            continue;
        }
        if op.arity() == 1 {
            un.push(op);
        } else {
            bin.push(op);
        }
    }
    (un, bin)
}

pub fn seeds() -> Vec<[f64; 2]> {
    let mut v: Vec<[f64; 2]> = vec![
        [0.0, 0.0],
        [-0.0, 0.0],
        [1.0, 0.0],
        [-1.0, 0.0],
        [1.0, 2f64.powi(-53)],
        [1.0, -2f64.powi(-54)],
        [1.0 + 2f64.powi(-51), -2f64.powi(-53)],
        [2.0, 0.0],
        [0.5, 2f64.powi(-60)],
        [3.0, -2f64.powi(-52)],
        [core::f64::consts::PI, 1.2246467991473532e-16],
        [-core::f64::consts::E, -1.4456468917292502e-16],
        [0.1, -5.551115123125783e-18],
        [100.75, -1e-15],
        [-7.25, 3e-17],
        [2f64.powi(53) + 2.0, 0.5],
        [2f64.powi(-30), 2f64.powi(-90)],
        [1e10, -1e-7],
        [2f64.powi(1000), 2f64.powi(940)],
        [-2f64.powi(999) * 1.9999999999999998, 2f64.powi(945)],
        [2f64.powi(-1000), 0.0],
        [-2f64.powi(-1000) * 1.5, 2f64.powi(-1060)],
        [2f64.powi(-1000) * 1.25, 5e-324],
        [700.0, 1e-14],
        [-1020.5, 0.0],
        [1e-300, 1e-320],
        [0.75, 0.0],
        [1.0 - 2f64.powi(-53), 2f64.powi(-107)],
    ];
    v.retain(|w| dd_valid(w[0], w[1]));
    v
}

#[derive(Clone, Copy)]
struct Succ {
    state: [u64; 2],
    parent: u32,
    op: u16,
    partner: u16, // partner seed index, +1000 if the partner was the left operand
}

fn canon_state(w: [f64; 2]) -> [u64; 2] {
    [crate::api::canon(w[0].to_bits()), crate::api::canon(w[1].to_bits())]
}

/// Expand one state with every unary op and every binary op against every partner (both orders).
/// `emit` receives each successor that is itself an operand the property speaks about.
fn expand(s: [f64; 2], sidx: u32, partners: &[[f64; 2]], un: &[Op], bin: &[Op], l: &mut Local, rec: &Recorder, base_idx: u64, mut emit: impl FnMut(Succ)) {
    let mut t = 0u64;
    let mut handle = |op: Op, a: [f64; 2], b: [f64; 2], partner: u16, l: &mut Local, t: &mut u64| {
        let (v, r) = judge(op, a, b);
        match &v {
            Verdict::Skip => {
                if r.k == 9 {
                    l.count("panicked (no value)", 1);
                }
            }
            _ => {}
        }
        rec.record(l, base_idx + *t, v);
        *t += 1;
        if r.k == 0 {
            let w = r.dd();
            if !w[0].is_finite() {
                l.count("terminal: non-finite high word", 1);
            } else if claimed_operand(w) {
                emit(Succ { state: canon_state(w), parent: sidx, op: op as u16, partner });
            } else {
                l.count("terminal: valid but outside the operand range", 1);
            }
        } else if r.k == 2 {
            for w in [[f64::from_bits(r.w[0]), f64::from_bits(r.w[1])], [f64::from_bits(r.w[2]), f64::from_bits(r.w[3])]] {
                if claimed_operand(w) {
                    emit(Succ { state: canon_state(w), parent: sidx, op: op as u16, partner });
                }
            }
        }
    };
    for &op in un {
        handle(op, s, [0.0, 0.0], u16::MAX, l, &mut t);
    }
    for &op in bin {
        for (pi, &p) in partners.iter().enumerate() {
            handle(op, s, p, pi as u16, l, &mut t);
            if !op.rhs_f64() || op.is_ctor() {
                handle(op, p, s, 1000 + pi as u16, l, &mut t);
            }
        }
    }
}

pub fn run(r: &mut Runner) {
    let quick = r.quick();
    let rec = r.recorder();
    // ------------------------------------------------------------------ (a) depth 1: every entry point on alphabets
    let (un, bin) = chain_ops();
    {
        let mut hf = run_bounded(52, 2);
        hf.extend(gen_fracs(4));
        hf.extend(weyl_fracs(if quick { 2 } else { 8 }, 21));
        let exps: Vec<i32> = if quick { (-1000..=1000).step_by(13).chain([-1000, -999, -1, 0, 1, 9, 10, 999, 1000]).collect() } else { (-1000..=1000).collect() };
        let lf = vec![0u64, (1u64 << 52) - 1, 1, gen_fracs(1)[0]];
        let gaps = if quick { vec![0, 1, 2, 10, 53] } else { vec![0, 1, 2, 3, 10, 30, 52, 53, 54, 200] };
        let mut xs = dd_grid(&exps, &hf, &gaps, &lf, &[5e-324]);
        xs.push([0.0, 0.0]);
        xs.push([-0.0, 0.0]);
        // targeted strata: arguments of the exponential family near every half-integer / table boundary
        for k in -1500..=1500 {
            let h = k as f64 * 0.25;
            for lo in [0.0, 1e-18, -1e-18, 2f64.powi(-60)] {
                let x = [h, lo * (1.0 + h.abs())];
                if dd_valid_fast(x[0], x[1]) {
                    xs.push(x);
                }
            }
        }
        // single set / single cleared fraction bit in the high word with low words at 1/4, 3/8, 1/2 ulp of either sign
        // (operands on which a validity test with a one-bit mask slip goes wrong; neg/abs/min/max/... return them)
        for e in [-900, -1, 0, 1, 53, 900] {
            for p in 0..52 {
                for f in [1u64 << p, ((1u64 << 52) - 1) ^ (1u64 << p)] {
                    let h = tfref::alpha::mk_f64(false, e, f).unwrap();
                    for m in [0.25, 0.375, 0.5] {
                        for s in [1.0, -1.0] {
                            let lo = s * m * 2f64.powi(e - 52);
                            if dd_valid_fast(h, lo) {
                                xs.push([h, lo]);
                                xs.push([-h, -lo]);
                            }
                        }
                    }
                }
            }
        }
        dedup(&mut xs);
        xs.retain(|w| claimed_operand(*w));
        let n = xs.len();
        r.notes.push(format!("depth-1 unary: {} operands x {} unary entry points", n, un.len()));
        r.add_sample(json!({"depth1_unary_operand": show_dd(xs[n / 2]), "ops": un.iter().map(|o| o.name()).collect::<Vec<_>>()}));
        let un2 = un.clone();
        r.par("depth 1: unary entry points", n.div_ceil(256), n as u64, |c, l| {
            for i in (c * 256)..((c + 1) * 256).min(n) {
                for (k, &op) in un2.iter().enumerate() {
                    let (v, res) = judge(op, xs[i], [0.0, 0.0]);
                    if res.k == 9 {
                        l.count("panicked (no value)", 1);
                    }
                    rec.record(l, (i * 64 + k) as u64, v);
                }
                rec.record(l, (i * 64 + 63) as u64, judge_cast(xs[i]));
                // powi with a spread of exponents
                for (k, n) in [-1000i32, -64, -3, -2, 0, 1, 2, 3, 17, 64, 1000, i32::MAX, i32::MIN + 1].iter().enumerate() {
                    let (v, _) = judge(Op::powi, xs[i], [*n as f64, 0.0]);
                    rec.record(l, (i * 64 + 48 + k) as u64, v);
                }
            }
        });
    }
    {
        // binary entry points on pair plans (the C03 plan, thinned in the quick tier)
        let mut p = crate::props::c03::plan(quick);
        if quick {
            p.deltas = vec![0, 1, -1, 2, 3, 26, 52, 53, 54, -53, 106, -106, 500, -1990];
            p.ua = p.ua.into_iter().step_by(3).collect();
            p.ub = p.ub.into_iter().step_by(3).collect();
        } else {
            p.deltas = vec![0, 1, -1, 2, -2, 3, -3, 5, 8, 13, 21, 26, 27, 34, 40, 50, 51, 52, -52, 53, -53, 54, -54, 55, 60, 64, 80, 100, 105, 106, -106, 107, -107, 108, 110, 150, -150, 500, -500, 1000, -1000, 1990, -1990];
            p.ua = p.ua.into_iter().step_by(7).collect();
            p.ub = p.ub.into_iter().step_by(7).collect();
        }
        let bin2 = bin.clone();
        r.notes.push(format!("depth-1 binary: unit alphabets {}x{} scaled to {} (e0, delta) combinations x {} binary entry points (TwoFloat/TwoFloat, TwoFloat/f64, f64/TwoFloat, constructors)", p.ua.len(), p.ub.len(), p.nchunks(), bin.len()));
        p.run(r, "depth 1: binary entry points", 1 << 40, |l, idx, a, b| {
            for (k, &op) in bin2.iter().enumerate() {
                if op.is_math() && (idx % 7 != 0) {
                    continue; // expensive two-argument functions on every 7th pair
                }
                let (v, res) = judge(op, a, b);
                if res.k == 9 {
                    l.count("panicked (no value)", 1);
                }
                rec.record(l, idx * 64 + k as u64, v);
            }
        });
    }
    {
        // products and quotients landing around the underflow / overflow thresholds: operand exponent pairs with
        // e_a + e_b (resp. e_a - e_b) in -1085..-995 and 1010..1030, every value in between
        let mut u = crate::props::c03::plan(true).ub;
        u.retain(|w| w[0] > 0.0);
        let mut thin: Vec<[f64; 2]> = u.iter().step_by(if quick { 23 } else { 7 }).cloned().collect();
        for m in [1.0, 1.0 + 2f64.powi(-52), 1.375, 1.9999999999999998, 1.5] {
            thin.push([m, 0.0]);
            thin.push([-m, 0.0]);
        }
        dedup(&mut thin);
        let eas: Vec<i32> = vec![-1000, -999, -800, -511, -100, -20, 0, 37, 300, 700, 1000];
        let mut targets: Vec<i32> = (-1085..=-995).collect();
        targets.extend(1010..=1030);
        let ops: Vec<Op> = vec![Op::mul, Op::mul_assign, Op::mul_f, Op::mul_assign_f, Op::f_mul, Op::div, Op::div_assign, Op::div_f, Op::div_assign_f, Op::f_div, Op::rem, Op::rem_f, Op::f_rem, Op::new_mul, Op::new_div, Op::hypot, Op::div_euclid, Op::rem_euclid];
        let nt = targets.len();
        r.notes.push(format!("threshold phase: {} operands per side x {} exponents of a x {} target exponents (sum for products, difference for quotients) x {} entry points", thin.len(), eas.len(), nt, ops.len()));
        r.par("depth 1: products / quotients around the under/overflow thresholds", eas.len() * nt, (eas.len() * nt * thin.len() * thin.len() * 2) as u64, |c, l| {
            let ea = eas[c / nt];
            let t = targets[c % nt];
            let mut i = 0u64;
            for (kind, eb) in [(0, t - ea), (1, ea - t)] {
                if !(-1000..=1000).contains(&eb) {
                    continue;
                }
                let av: Vec<[f64; 2]> = thin.iter().filter_map(|&w| tfref::alpha::dd_scale(w, ea)).collect();
                let bv: Vec<[f64; 2]> = thin.iter().filter_map(|&w| tfref::alpha::dd_scale(w, eb)).collect();
                for a in &av {
                    for b in &bv {
                        for &op in &ops {
                            let is_div = matches!(op, Op::div | Op::div_assign | Op::div_f | Op::div_assign_f | Op::f_div | Op::rem | Op::rem_f | Op::f_rem | Op::new_div | Op::div_euclid | Op::rem_euclid);
                            if (kind == 1) != is_div {
                                continue;
                            }
                            let (v, res) = judge(op, *a, *b);
                            if res.k == 9 {
                                l.count("panicked (no value)", 1);
                            }
                            rec.record(l, (1u64 << 53) + ((c as u64) << 24) + i, v);
                            i += 1;
                        }
                    }
                }
            }
        });
    }
    {
        // generic stream: full-size mantissas in all words, every entry point
        let n: u64 = if quick { 1_000_000 } else { 100_000_000 };
        r.notes.push(format!("generic stream: {} operand pairs of a fixed Weyl sequence (full 52-bit fractions in all four words, exponents over [2^-1000, 2^1000], exponent offset -3..3) x every unary and binary entry point", n));
        let chunk = 1u64 << 14;
        let (un3, bin3) = (un.clone(), bin.clone());
        r.par("depth 1: generic stream, all entry points", (n / chunk) as usize, n, |c, l| {
            for i in (c as u64 * chunk)..((c as u64 + 1) * chunk) {
                let a = match tfref::alpha::generic_dd(i, 101, -997, 996) {
                    Some(a) => a,
                    None => continue,
                };
                let ea = crate::grid::exp_of(a[0]);
                let d = (i % 7) as i32 - 3;
                let b = match tfref::alpha::generic_dd(i, 2000 + (i % 13), ea + d, ea + d) {
                    Some(b) => b,
                    None => continue,
                };
                let mut k = 0u64;
                for &op in un3.iter() {
                    if op.is_math() && i % 4 != 0 {
                        continue;
                    }
                    let (v, _) = judge(op, a, [0.0, 0.0]);
                    rec.record(l, (1u64 << 54) + i * 128 + k, v);
                    k += 1;
                }
                for &op in bin3.iter() {
                    if op.is_math() && i % 4 != 0 {
                        continue;
                    }
                    let (v, _) = judge(op, a, b);
                    rec.record(l, (1u64 << 54) + i * 128 + k, v);
                    k += 1;
                }
            }
        });
    }
    {
        // integer sources
        let ints: Vec<u128> = {
            let mut v: Vec<u128> = tfref::alpha::run_bounded_128(if quick { 3 } else { 4 });
            for x in run_bounded(64, 3) {
                v.push(x as u128);
                v.push((x as i64 as i128) as u128);
            }
            for j in 54..128u32 {
                let p = 1u128 << j;
                let half = 1u128 << (j - 54);
                let ulp = 1u128 << (j - 53);
                for m in 0..4u128 {
                    for d in [0u128, 1, 2] {
                        v.push(p + m * ulp + half - d);
                        v.push(p + m * ulp + half + d);
                        v.push((p + m * ulp + half - d).wrapping_neg());
                    }
                }
            }
            v.extend(crate::props::c09::ints128(if quick { 3 } else { 4 }));
            v.sort();
            v.dedup();
            v
        };
        let n = ints.len();
        // integer-valued double-doubles at and above 2^53 with fractional / tie low words (sources of NumCast::from(TwoFloat))
        let mut tfs: Vec<[f64; 2]> = vec![];
        for j in 52..=126 {
            for m in [0.0, 1.0, 2.0, 3.0] {
                let h = 2f64.powi(j) + m * 2f64.powi(j - 52);
                for lo in [0.25, -0.25, 0.5, -0.5, 0.75, -0.75, 1.0, -1.0, 1.5, -1.5, 2f64.powi(j - 53), -2f64.powi(j - 53), 2f64.powi(j - 53) - 0.5, 0.5 - 2f64.powi(j - 53), 2f64.powi(j - 54) * 1.5, -2f64.powi(j - 54) * 1.5] {
                    for s in [1.0, -1.0] {
                        if tfref::big::dd_valid_fast(s * h, s * lo) {
                            tfs.push([s * h, s * lo]);
                        }
                    }
                }
            }
        }
        let ntf = tfs.len();
        r.notes.push(format!("num_traits conversion routes: {} integers x 10 types x (From, FromPrimitive, NumCast); NumCast/FromPrimitive from TwoFloat/f64/f32 on every depth-1 unary operand and on {} integer-valued double-doubles >= 2^52 with fractional and tie low words", n, ntf));
        r.par("depth 1: NumCast from integer-valued TwoFloat", 1, ntf as u64, |_, l| {
            for (i, x) in tfs.iter().enumerate() {
                rec.record(l, (1 << 49) + i as u64, judge_cast(*x));
            }
        });
        r.par("depth 1: From<integer> (10 types)", n.div_ceil(1024), n as u64, |c, l| {
            for i in (c * 1024)..((c + 1) * 1024).min(n) {
                for (k, ty) in ["i8", "u8", "i16", "u16", "i32", "u32", "i64", "u64", "i128", "u128"].iter().enumerate() {
                    rec.record(l, (1 << 50) + (i * 10 + k) as u64, judge_from_int(ty, ints[i]));
                }
            }
        });
        r.par("constants", 1, 23, |_, l| rec.record(l, 1u64 << 51, judge_consts()));
    }
    {
        // checked construction: whatever TryFrom accepts must be normalised (every exponent of the high word,
        // low words at and around the half-ulp / quarter-ulp thresholds, both signs)
        let fr: Vec<u64> = vec![0, 1, (1u64 << 52) - 1, (1u64 << 52) - 2, 1u64 << 51];
        let es: Vec<i32> = (-1022..=1023).collect();
        r.par("depth 1: TryFrom<(f64,f64)> / TryFrom<[f64;2]>", es.len(), (es.len() * fr.len() * 2 * 56) as u64, |c, l| {
            use core::convert::TryFrom;
            let e = es[c];
            let mut i = 0u64;
            for &f in &fr {
                for s in [false, true] {
                    let a = tfref::alpha::mk_f64(s, e, f).unwrap();
                    // special low words: whatever is accepted must still be a valid pair (a NaN or infinite low word never is)
                    for b in [f64::NAN, -f64::NAN, f64::from_bits(0x7ff0_0000_0000_0001), f64::INFINITY, f64::NEG_INFINITY, 0.0, -0.0, 5e-324, -5e-324, f64::MAX, f64::MIN, f64::MIN_POSITIVE] {
                        let args = [a.to_bits(), b.to_bits()];
                        for (which, res) in [("try_from_tuple", st::TF::try_from((a, b)).ok()), ("try_from_array", st::TF::try_from([a, b]).ok())] {
                            let v = match res {
                                Some(t) if !ok_result([t.hi(), t.lo()]) => Verdict::fail("normalised_or_nonfinite_hi", which, &args, show_dd([t.hi(), t.lo()]), "Err, or a valid TwoFloat".into(), if t.lo().is_finite() { "overlapping_words" } else { "finite_hi_nonfinite_lo" }),
                                _ => Verdict::Pass,
                            };
                            rec.record(l, (1u64 << 52) + ((c as u64) << 16) + i, v);
                            i += 1;
                        }
                    }
                    for j in -2..=1 {
                        let te = e - 53 + j;
                        if te < -1074 {
                            continue;
                        }
                        let t = tfref::big::pow2_f64(te);
                        for k in -3..=3 {
                            for sb in [1.0, -1.0] {
                                let b = sb * crate::util::step(t, k);
                                let args = [a.to_bits(), b.to_bits()];
                                for (which, res) in [("try_from_tuple", st::TF::try_from((a, b)).ok()), ("try_from_array", st::TF::try_from([a, b]).ok())] {
                                    let v = match res {
                                        Some(t) if !ok_result([t.hi(), t.lo()]) => Verdict::fail("normalised_or_nonfinite_hi", which, &args, show_dd([t.hi(), t.lo()]), "Err, or a valid TwoFloat".into(), "overlapping_words"),
                                        _ => Verdict::Pass,
                                    };
                                    rec.record(l, (1u64 << 52) + ((c as u64) << 16) + i, v);
                                    i += 1;
                                }
                            }
                        }
                    }
                }
            }
        });
    }
    // ------------------------------------------------------------------ (b) chains: level-synchronous BFS
    let sd = seeds();
    let partners: Vec<[f64; 2]> = if quick { sd.iter().step_by(2).cloned().collect() } else { sd.iter().step_by(3).cloned().collect() };
    let depth = if quick { 3 } else { 4 };
    r.notes.push(format!("chains: {} seeds, {} partner operands for binary calls (both operand orders), {} unary + {} binary entry points, breadth-first to depth {}; a state is expanded only if it is a valid operand with high word 0 or in [2^-1000, 2^1000]; states deduplicated on their 128 bits (NaN canonicalised); the last level's successors are judged but not stored", sd.len(), partners.len(), un.len(), bin.len(), depth));
    let mut visited: Vec<[u64; 2]> = sd.iter().map(|w| canon_state(*w)).collect();
    visited.sort();
    visited.dedup();
    let mut frontier: Vec<[u64; 2]> = visited.clone();
    let mut levels = vec![json!({"depth": 0, "states": frontier.len()})];
    // parent bookkeeping for explanations: per level, (state -> (parent state, op, partner))
    let mut parents: Vec<std::collections::HashMap<[u64; 2], ([u64; 2], u16, u16)>> = vec![Default::default()];
    for d in 1..=depth {
        let last = d == depth;
        let nf = frontier.len();
        let out: Mutex<Vec<Succ>> = Mutex::new(Vec::new());
        let chunk = if nf > 100_000 { 1024 } else { 16 };
        let per_state = (un.len() + 2 * bin.len() * partners.len()) as u64;
        let fr = &frontier;
        r.par(&format!("chains: expand depth {} -> {}", d - 1, d), nf.div_ceil(chunk), 0, |c, l| {
            let mut mine: Vec<Succ> = Vec::new();
            for i in (c * chunk)..((c + 1) * chunk).min(nf) {
                let s = [f64::from_bits(fr[i][0]), f64::from_bits(fr[i][1])];
                expand(s, i as u32, &partners, &un, &bin, l, &rec, (1u64 << 56) + ((d as u64) << 52) + (i as u64) * per_state, |sc| {
                    if !last {
                        mine.push(sc)
                    }
                });
            }
            if !mine.is_empty() {
                // local dedup before sharing
                mine.sort_by(|a, b| a.state.cmp(&b.state).then(a.parent.cmp(&b.parent)).then(a.op.cmp(&b.op)).then(a.partner.cmp(&b.partner)));
                mine.dedup_by(|a, b| a.state == b.state);
                out.lock().unwrap().append(&mut mine);
            }
        });
        if last {
            levels.push(json!({"depth": d, "states": "successors judged, not stored"}));
            break;
        }
        let mut all = out.into_inner().unwrap();
        all.sort_by(|a, b| a.state.cmp(&b.state).then(a.parent.cmp(&b.parent)).then(a.op.cmp(&b.op)).then(a.partner.cmp(&b.partner)));
        all.dedup_by(|a, b| a.state == b.state);
        // remove already visited
        let mut next: Vec<[u64; 2]> = Vec::with_capacity(all.len());
        let mut pm: std::collections::HashMap<[u64; 2], ([u64; 2], u16, u16)> = Default::default();
        for s in &all {
            if visited.binary_search(&s.state).is_err() {
                next.push(s.state);
                if all.len() < 400_000 {
                    pm.insert(s.state, (frontier[s.parent as usize], s.op, s.partner));
                }
            }
        }
        parents.push(pm);
        visited.extend(next.iter().cloned());
        visited.sort();
        levels.push(json!({"depth": d, "states": next.len()}));
        r.states += next.len() as u64;
        if let Some(s) = next.get(next.len() / 2) {
            // a sample chain: walk parents back to a seed
            let mut chain = vec![];
            let mut cur = *s;
            for lvl in (1..=d).rev() {
                if let Some((p, op, partner)) = parents[lvl].get(&cur) {
                    chain.push(json!({"op": Op::ALL[*op as usize].name(), "partner": if *partner == u16::MAX { json!(null) } else { json!(show_dd(partners[(*partner % 1000) as usize])) }, "partner_on_left": *partner >= 1000 && *partner != u16::MAX, "result": show_dd([f64::from_bits(cur[0]), f64::from_bits(cur[1])])}));
                    cur = *p;
                } else {
                    break;
                }
            }
            chain.push(json!({"seed": show_dd([f64::from_bits(cur[0]), f64::from_bits(cur[1])])}));
            chain.reverse();
            r.add_sample(json!({"chain": chain}));
        }
        frontier = next;
    }
    r.states += sd.len() as u64;
    r.notes.push(format!("BFS levels: {}", serde_json::to_string(&levels).unwrap()));
    {
        // histories: every unary entry point on a value, its variants and one unrelated value, in all orders (length <= 3);
        // binary entry points on operand pairs in both orders
        let un: Vec<Op> = Op::ALL.iter().cloned().filter(|o| o.arity() == 1 && *o != Op::from_f64 && *o != Op::sin_cos).collect();
        let mut groups: Vec<Vec<crate::hist::HCall>> = vec![];
        for &op in &un {
            for (x, other) in [([1.001, 0.0], [1e10, 0.0]), ([0.75, 1e-17], [-2.5, 1e-16])] {
                groups.extend(crate::hist::unary_groups(&[op], &[x], other));
            }
        }
        let bin: Vec<Op> = vec![Op::add, Op::sub, Op::mul, Op::div, Op::rem, Op::powf, Op::atan2, Op::hypot, Op::div_assign, Op::sub_assign];
        for &op in &bin {
            groups.extend(crate::hist::binary_groups(&[op], &[([1.5, 1e-17], [1.25, -3e-18])]));
        }
        crate::hist::explore(r, "histories: every unary entry point and ten binary ones", &groups, 3, &hist_judge, 1u64 << 57);
    }
}
