//! C04 — multiplication meets the proven double-word error bounds; exactness families.
use crate::api::st;
use crate::pairs::PairPlan;
use crate::props::c03::unit_alphabet;
use crate::run::{api, Local, Runner, Verdict};
use crate::util::show_dd;
use serde_json::json;
use tfref::alpha::{f64_scale, gen_fracs, run_bounded, run_bounded_at, weyl_fracs};
use tfref::big::Dy;

pub const CALLS: [&str; 6] = ["mul", "mul_assign", "mul_f", "mul_assign_f", "f_mul", "mul_self"];

fn in_range(hi: f64) -> bool {
    hi == 0.0 || (hi.is_finite() && hi.abs() >= 2f64.powi(-450) && hi.abs() <= 2f64.powi(450))
}

fn is_pow2(x: f64) -> bool {
    x != 0.0 && x.is_finite() && (x.to_bits() & ((1u64 << 52) - 1)) == 0 && ((x.to_bits() >> 52) & 0x7ff) != 0
}

pub fn judge(call: usize, a: [f64; 2], b: [f64; 2], l: Option<&mut Local>) -> Verdict {
    let name = CALLS[call];
    let args = [a[0].to_bits(), a[1].to_bits(), b[0].to_bits(), b[1].to_bits()];
    if !in_range(a[0]) || !in_range(b[0]) {
        return Verdict::Skip;
    }
    // 5: `&x * &x` with BOTH operands the same object (aliased references); judged as mul of (a, a)
    if call == 5 && (a[0].to_bits() != b[0].to_bits() || a[1].to_bits() != b[1].to_bits()) {
        return Verdict::Skip;
    }
    let x = st::mk(a);
    let f = b[0];
    let aliased = call == 5;
    let res = api(|| match call {
        5 => &x * &x,
        0 => x * st::mk(b),
        1 => {
            let mut t = x;
            t *= st::mk(b);
            t
        }
        2 => x * f,
        3 => {
            let mut t = x;
            t *= f;
            t
        }
        _ => f * x,
    });
    let call = if aliased { 0 } else { call };
    let r = match res {
        Ok(t) => [t.hi(), t.lo()],
        Err(m) => return Verdict::fail("no_panic", name, &args, format!("panic: {}", m), "a value".into(), "panic"),
    };
    let da = Dy::from_dd(a[0], a[1]);
    let db = if call < 2 { Dy::from_dd(b[0], b[1]) } else { Dy::from_f64(f) };
    let p = da.mul(&db);
    if !r[0].is_finite() || !r[1].is_finite() {
        return Verdict::fail("bound", name, &args, show_dd(r), "finite product".into(), "nonfinite");
    }
    let e = Dy::from_dd(r[0], r[1]).sub(&p);
    // exactness families
    let b_is_f = call >= 2 || b[1] == 0.0;
    if p.is_zero() {
        if !e.is_zero() {
            return Verdict::fail("zero_factor", name, &args, show_dd(r), "exactly zero".into(), "nonzero_for_zero_factor");
        }
        return Verdict::Pass;
    }
    if b_is_f && (f == 1.0 || f == -1.0) {
        if !e.is_zero() {
            return Verdict::fail("times_pm1_exact", name, &args, show_dd(r), "exact".into(), "inexact");
        }
        return Verdict::Pass;
    }
    if b_is_f && is_pow2(f) {
        // exact whenever the scaled low word does not underflow
        let k = ((f.to_bits() >> 52) & 0x7ff) as i32 - 1023;
        if f64_scale(a[1], k).is_some() && f64_scale(a[0], k).is_some() {
            if !e.is_zero() {
                return Verdict::fail("times_pow2_exact", name, &args, show_dd(r), "exact (scaled low word representable)".into(), "inexact");
            }
            return Verdict::Pass;
        }
    }
    // symmetric case: a is +-1 or a power of two (TwoFloat x TwoFloat only): a * b with a = (2^k, 0)
    if call < 2 && a[1] == 0.0 && is_pow2(a[0]) {
        let k = ((a[0].to_bits() >> 52) & 0x7ff) as i32 - 1023;
        if f64_scale(b[1], k).is_some() && f64_scale(b[0], k).is_some() && !e.is_zero() {
            return Verdict::fail("times_pow2_exact", name, &args, show_dd(r), "exact (scaled low word representable)".into(), "inexact");
        }
    }
    let (k, clause) = if call < 2 { (5u64, "tf*tf: 5u^2") } else { (2u64, "tf*f64: 2u^2") };
    let (ok, ratio) = e.within(k, -106, &p);
    if let Some(l) = l {
        if ratio > 0.05 {
            l.worst(clause, ratio, || format!("{} {} {}", name, show_dd(a), show_dd(b)));
        }
    }
    if !ok {
        return Verdict::fail(clause, name, &args, show_dd(r), format!("|r - a*b| <= {}*2^-106*|a*b|; observed/allowed = {:.6}", k, ratio), "over_bound");
    }
    Verdict::Pass
}

pub fn hist_judge(c: &crate::hist::HCall, l: Option<&mut Local>) -> Verdict {
    use crate::api::Op;
    let k = match c.as_op() {
        Some(Op::mul) => 0,
        Some(Op::mul_assign) => 1,
        Some(Op::mul_f) => 2,
        Some(Op::mul_assign_f) => 3,
        Some(Op::f_mul) => 4,
        _ => return Verdict::Skip,
    };
    judge(k, c.a, c.b, l)
}

pub fn replay(call: &str, _clause: &str, args: &[u64]) -> Verdict {
    if call == "hist" {
        return crate::hist::replay(args, &hist_judge);
    }
    let ci = CALLS.iter().position(|c| *c == call).expect("unknown call");
    judge(ci, [f64::from_bits(args[0]), f64::from_bits(args[1])], [f64::from_bits(args[2]), f64::from_bits(args[3])], None)
}

pub fn plan(quick: bool) -> PairPlan {
    let pos: Vec<u32> = vec![1, 2, 26, 27, 50, 51];
    let mut hf: Vec<u64> = if quick { run_bounded_at(52, 2, &pos) } else { run_bounded(52, 2) };
    if !quick {
        hf.extend(run_bounded_at(52, 3, &[1, 26, 51]));
        hf.sort();
        hf.dedup();
    }
    hf.extend(gen_fracs(if quick { 4 } else { 8 }));
    hf.extend(weyl_fracs(if quick { 20 } else { 48 }, 5));
    // mantissas slightly above a power of two (top bits zero, generic tail): products 1.0x * 1.0y
    hf.extend(weyl_fracs(if quick { 12 } else { 32 }, 9).into_iter().map(|f| f >> 6));
    let gaps: Vec<i32> = if quick { vec![0, 1, 2, 10, 52, 53, 54] } else { vec![0, 1, 2, 10, 30, 52, 53, 54, 200] };
    let mut lf: Vec<u64> = run_bounded(52, 1);
    lf.push(1);
    lf.push((1u64 << 52) - 2);
    lf.extend(gen_fracs(1));
    lf.extend(weyl_fracs(1, 6));
    let ua = unit_alphabet(&hf, &gaps, &lf, false);
    let ub = unit_alphabet(&hf, &gaps, &lf, true);
    // thorough: every 2nd / 3rd member (the full product would be ~1e11 exact checks)
    let (ua, ub): (Vec<[f64; 2]>, Vec<[f64; 2]>) = if quick { (ua, ub) } else { (ua.into_iter().step_by(2).collect(), ub.into_iter().step_by(3).collect()) };
    PairPlan {
        ua,
        ub,
        e0s: if quick { vec![-450, 0, 449] } else { vec![-450, -449, -1, 0, 1, 448, 449] },
        deltas: if quick { vec![0, -899, 899, 1, -37] } else { vec![0, 1, -1, -37, 53, -449, 449, 450, -450, -898, 898, -899, 899] },
        emin: -450,
        emax: 449,
        extra_a: vec![[0.0, 0.0], [-0.0, 0.0]],
        extra_b: vec![[0.0, 0.0], [-0.0, -0.0]],
    }
}

pub fn run(r: &mut Runner) {
    let quick = r.quick();
    let p = plan(quick);
    r.notes.push(format!("unit alphabets |Ua|={} |Ub|={}; reference exponents {:?}; exponent offsets {:?}; high words restricted to 0 or [2^-450, 2^450]", p.ua.len(), p.ub.len(), p.e0s, p.deltas));
    r.add_sample(json!({"a": show_dd(p.ua[p.ua.len() / 3]), "b": show_dd(p.ub[p.ub.len() / 2]), "note": "unit alphabet members before scaling"}));
    let rec = r.recorder();
    let next = p.run(r, "tf*tf", 0, |l, idx, a, b| {
        let v = judge(0, a, b, Some(l));
        let fail = v.is_fail();
        rec.record(l, idx * 2, v);
        // compound assignment: same words => same verdict
        let x = st::mk(a);
        let y = st::mk(b);
        let o = api(|| x * y);
        let t = api(|| {
            let mut t = x;
            t *= y;
            t
        });
        match (o, t) {
            (Ok(o), Ok(t)) if !fail && o.hi().to_bits() == t.hi().to_bits() && o.lo().to_bits() == t.lo().to_bits() => l.transitions += 1,
            _ => {
                let v = judge(1, a, b, Some(l));
                rec.record(l, idx * 2 + 1, v);
            }
        }
    });
    let next = p.run(r, "tf*f64", next * 2, |l, idx, a, b| {
        if b[1].to_bits() != 0 {
            return;
        }
        for call in 2..5usize {
            let v = judge(call, a, b, Some(l));
            rec.record(l, idx * 3 + (call - 2) as u64, v);
        }
    });
    // exactness families: every power of two 2^j as TwoFloat and as f64 factor, +-1, zero
    let xs: Vec<[f64; 2]> = {
        let mut v = vec![];
        for e0 in [-450, -400, -1, 0, 1, 300, 449] {
            for w in p.ub.iter().step_by(if quick { 7 } else { 1 }) {
                if let Some(s) = tfref::alpha::dd_scale(*w, e0) {
                    v.push(s);
                }
            }
        }
        // subnormal / tiny low words
        for e0 in [-450, 0, 449] {
            for lo in [5e-324, -5e-324, 2f64.powi(-1060), -2f64.powi(-1022)] {
                v.push([2f64.powi(e0) * 1.25, lo]);
            }
        }
        v
    };
    let js: Vec<i32> = (-450..=450).collect();
    let nx = xs.len();
    r.par("times 2^j, +-1, 0", js.len(), (nx * js.len()) as u64 * 2, |c, l| {
        let j = js[c];
        for (i, x) in xs.iter().enumerate() {
            for s in [1.0f64, -1.0] {
                let f = s * 2f64.powi(j);
                for call in 0..5usize {
                    let v = judge(call, *x, [f, 0.0], Some(l));
                    rec.record(l, next * 3 + ((c * nx + i) * 10) as u64 + call as u64 + if s < 0.0 { 5 } else { 0 }, v);
                }
                // power of two on the left (TwoFloat x TwoFloat)
                let v = judge(0, [f, 0.0], *x, Some(l));
                rec.record(l, next * 3 + ((c * nx + i) * 10) as u64 + 9, v);
            }
        }
    });
    {
        let org = crate::organic::states(1);
        let b: Vec<[f64; 2]> = if quick { org.iter().step_by(5).cloned().collect() } else { org.clone() };
        let (na, nb) = (org.len(), b.len());
        r.notes.push(format!("organic operands: {} chain states (depth 1 from the C01 seeds) x {} of them", na, nb));
        r.par("organic pairs (chain results as operands)", na, (na * nb) as u64, |i, l| {
            for (j, y) in b.iter().enumerate() {
                for call in 0..5usize {
                    let v = judge(call, org[i], *y, Some(l));
                    rec.record(l, (1u64 << 61) + ((i * nb + j) * 5 + call) as u64, v);
                }
            }
        });
    }
    {
        // generic stream: both operands with full-size mantissas in both words; the second operand's exponent is
        // tied to the first one's (offsets -3..3) so that the words interact
        let n: u64 = if quick { 3_000_000 } else { 300_000_000 };
        r.notes.push(format!("generic stream: {} pairs from a fixed Weyl sequence (full 52-bit fractions in all four words, exponents over the whole claimed range, exponent offset -3..3)", n));
        let chunk = 1u64 << 16;
        r.par("generic stream (fixed Weyl sequence)", (n / chunk) as usize, n, |c, l| {
            for i in (c as u64 * chunk)..((c as u64 + 1) * chunk) {
                let a = match tfref::alpha::generic_dd(i, 52, -450 + 3, 449 - 3) {
                    Some(a) => a,
                    None => continue,
                };
                let ea = crate::grid::exp_of(a[0]);
                let d = (i % 7) as i32 - 3;
                let b = match tfref::alpha::generic_dd(i, 1000 + (i % 13), ea + d, ea + d) {
                    Some(b) => b,
                    None => continue,
                };
                for call in 0..5usize {
                    let v = judge(call, a, b, Some(l));
                    rec.record(l, (1u64 << 62) + i * 8 + call as u64, v);
                }
            }
        });
    }
    {
        // the same object on both sides: `&x * &x` (aliased references), which a squaring / self-cancellation shortcut keyed on
        // pointer identity would treat differently from two equal values; judged with the oracle of (x, x)
        let xs = crate::fx::self_alphabet(quick, -450, 449, 401);
        let nx = xs.len();
        r.notes.push(format!("aliased operands (&x * &x, one object): {} operands (grid over exponents -450..449, one-call chain states, generic stream)", nx));
        r.par("aliased operands: &x * &x", nx.div_ceil(4096), nx as u64, |c, l| {
            for i in (c * 4096)..((c + 1) * 4096).min(nx) {
                for call in [5usize] {
                    let v = judge(call, xs[i], xs[i], Some(l));
                    rec.record(l, (5u64 << 59) + (i * 4 + call % 4) as u64, v);
                }
            }
        });
    }
    {
        use crate::api::Op;
        let pairs = [([1.5, 1e-17], [1.25, -3e-18]), ([3.0, 2f64.powi(-53)], [0.1, 5e-18]), ([2f64.powi(100), 1.0], [7.0, 0.0])];
        let mut groups = crate::hist::binary_groups(&[Op::mul, Op::mul_assign], &pairs);
        groups.extend(crate::hist::binary_groups(&[Op::mul_f, Op::f_mul], &pairs[..2]));
        crate::hist::explore(r, "histories: * (operand orders, signs, assign forms)", &groups, 3, &hist_judge, 14u64 << 55);
        // cross-family histories: the same judged calls, preceded by every other public function on the same operands
        crate::hist::explore_mixed(r, "cross-family histories: any public call, then * (operand orders, signs, assign forms)", &groups, 2, &hist_judge, (14u64 << 55) + (1u64 << 53));
    }
}
