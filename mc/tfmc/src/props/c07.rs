//! C07 — no_overlap / is_valid / checked construction implement Definition 1.4 exactly.
use crate::api::st;
use crate::run::{api, Local, Runner, Verdict};
use crate::util::{hexf, step};
use core::convert::TryFrom;
use serde_json::json;
use tfref::alpha::{mk_f64, mk_subnormal, run_bounded};
use tfref::big::Dy;

/// The specification: a finite and RN(a + b) == a.
#[inline]
fn spec(a: f64, b: f64, exact_cross_check: bool) -> bool {
    let hw = a.is_finite() && a + b == a;
    if exact_cross_check && a.is_finite() && b.is_finite() {
        let ex = Dy::from_dd(a, b).to_f64_rn().0;
        let exv = ex == a;
        assert!(exv == hw, "oracle/hardware disagreement for RN({}+{})", hexf(a), hexf(b));
    }
    hw
}

pub fn judge(a: f64, b: f64, cross: bool) -> Verdict {
    let want = spec(a, b, cross);
    let args = [a.to_bits(), b.to_bits()];
    let got = match api(|| twofloat::no_overlap(a, b)) {
        Ok(g) => g,
        Err(m) => return Verdict::fail("no_overlap", "no_overlap", &args, format!("panic: {}", m), format!("{}", want), "panic"),
    };
    if got != want {
        return Verdict::fail("no_overlap", "no_overlap", &args, format!("{}", got), format!("{} (a finite and RN(a+b)==a)", want), "wrong_bool");
    }
    let v = st::mk([a, b]);
    let want_valid = want && b.is_finite();
    match api(|| v.is_valid()) {
        Ok(g) if g == want_valid => {}
        Ok(g) => return Verdict::fail("is_valid", "is_valid", &args, format!("{}", g), format!("{}", want_valid), "wrong_bool"),
        Err(m) => return Verdict::fail("is_valid", "is_valid", &args, format!("panic: {}", m), format!("{}", want_valid), "panic"),
    }
    // checked construction, tuple
    let r = api(|| st::TF::try_from((a, b)));
    match r {
        Err(m) => return Verdict::fail("try_from_tuple", "try_from((f64,f64))", &args, format!("panic: {}", m), format!("Ok == {}", want), "panic"),
        Ok(Ok(t)) => {
            if !want {
                return Verdict::fail("try_from_tuple", "try_from((f64,f64))", &args, "Ok".into(), "Err".into(), "accepted_overlap");
            }
            if t.hi().to_bits() != a.to_bits() || t.lo().to_bits() != b.to_bits() {
                return Verdict::fail("try_from_tuple", "try_from((f64,f64))", &args, format!("Ok({})", crate::util::show_dd([t.hi(), t.lo()])), "words preserved bit-for-bit".into(), "words_changed");
            }
            let back: (f64, f64) = t.into();
            let back2: (f64, f64) = (&t).into();
            if back.0.to_bits() != a.to_bits() || back.1.to_bits() != b.to_bits() || back2.0.to_bits() != a.to_bits() || back2.1.to_bits() != b.to_bits() {
                return Verdict::fail("roundtrip_tuple", "<(f64,f64)>::from(TwoFloat)", &args, format!("{:?}", back), "same tuple".into(), "words_changed");
            }
        }
        Ok(Err(_)) => {
            if want {
                return Verdict::fail("try_from_tuple", "try_from((f64,f64))", &args, "Err".into(), "Ok".into(), "rejected_valid");
            }
        }
    }
    let r = api(|| st::TF::try_from([a, b]));
    match r {
        Err(m) => return Verdict::fail("try_from_array", "try_from([f64;2])", &args, format!("panic: {}", m), format!("Ok == {}", want), "panic"),
        Ok(Ok(t)) => {
            if !want {
                return Verdict::fail("try_from_array", "try_from([f64;2])", &args, "Ok".into(), "Err".into(), "accepted_overlap");
            }
            if t.hi().to_bits() != a.to_bits() || t.lo().to_bits() != b.to_bits() {
                return Verdict::fail("try_from_array", "try_from([f64;2])", &args, format!("Ok({})", crate::util::show_dd([t.hi(), t.lo()])), "words preserved bit-for-bit".into(), "words_changed");
            }
            let back: [f64; 2] = t.into();
            let back2: [f64; 2] = (&t).into();
            if back[0].to_bits() != a.to_bits() || back[1].to_bits() != b.to_bits() || back2[0].to_bits() != a.to_bits() || back2[1].to_bits() != b.to_bits() {
                return Verdict::fail("roundtrip_array", "<[f64;2]>::from(TwoFloat)", &args, format!("{:?}", back), "same array".into(), "words_changed");
            }
        }
        Ok(Err(_)) => {
            if want {
                return Verdict::fail("try_from_array", "try_from([f64;2])", &args, "Err".into(), "Ok".into(), "rejected_valid");
            }
        }
    }
    Verdict::Pass
}

pub fn hist_judge(c: &crate::hist::HCall, _l: Option<&mut crate::run::Local>) -> Verdict {
    if c.kind == 1 && c.code == 13 {
        judge(c.a[0], c.a[1], true)
    } else {
        Verdict::Skip
    }
}

pub fn replay(call: &str, _clause: &str, args: &[u64]) -> Verdict {
    if call == "hist" {
        return crate::hist::replay(args, &hist_judge);
    }
    judge(f64::from_bits(args[0]), f64::from_bits(args[1]), true)
}

fn specials() -> Vec<f64> {
    vec![0.0, -0.0, f64::INFINITY, f64::NEG_INFINITY, f64::NAN, -f64::NAN, f64::from_bits(0x7ff0_0000_0000_0001), f64::MAX, f64::MIN, f64::MIN_POSITIVE, -f64::MIN_POSITIVE, 5e-324, -5e-324]
}

pub fn run(r: &mut Runner) {
    let quick = r.quick();
    // ---- the `a` alphabet: ALL 2046 normal exponents x fractions x sign, subnormals, specials
    let mut afr: Vec<u64> = run_bounded(52, if quick { 1 } else { 2 });
    for extra in [1u64, (1u64 << 52) - 2, 1u64 << 51, (1u64 << 51) + 1] {
        if !afr.contains(&extra) {
            afr.push(extra);
        }
    }
    // every single set bit and every single cleared bit of the fraction field: a bit mask or shift count that is
    // off in one position shows only on these (e.g. a power-of-two test that ignores fraction bit p); such a slip
    // does not depend on the exponent, so these 104 fractions are taken at 16 exponents only
    let mut bitfr: Vec<u64> = vec![];
    for p in 0..52 {
        bitfr.push(1u64 << p);
        bitfr.push(((1u64 << 52) - 1) ^ (1u64 << p));
    }
    let mut avals: Vec<f64> = Vec::new();
    for e in -1022..=1023 {
        for &f in &afr {
            for s in [false, true] {
                avals.push(mk_f64(s, e, f).unwrap());
            }
        }
        if [-1022, -1021, -969, -500, -54, -1, 0, 1, 52, 53, 54, 500, 969, 970, 1022, 1023].contains(&e) {
            for &f in &bitfr {
                if !afr.contains(&f) {
                    for s in [false, true] {
                        avals.push(mk_f64(s, e, f).unwrap());
                    }
                }
            }
        }
    }
    let subfr: Vec<u64> = run_bounded(52, if quick { 2 } else { 3 });
    for &f in &subfr {
        if f != 0 {
            avals.push(mk_subnormal(false, f));
            avals.push(mk_subnormal(true, f));
        }
    }
    avals.extend(specials());

    // ---- absolute `b` alphabet: ALL 2098 exponent positions x fractions x sign, specials
    let mut bfr: Vec<u64> = run_bounded(52, 1);
    for extra in [1u64, (1u64 << 52) - 2] {
        bfr.push(extra);
    }
    if !quick {
        for f in run_bounded(52, 2) {
            if !bfr.contains(&f) {
                bfr.push(f);
            }
        }
    }
    let mut bvals: Vec<f64> = Vec::new();
    for e in -1022..=1023 {
        for &f in &bfr {
            for s in [false, true] {
                bvals.push(mk_f64(s, e, f).unwrap());
            }
        }
    }
    for p in 0..52 {
        // every subnormal exponent position: 2^p * 2^-1074, and all-ones below it
        for s in [false, true] {
            bvals.push(mk_subnormal(s, 1u64 << p));
            bvals.push(mk_subnormal(s, (1u64 << (p + 1)) - 1));
        }
    }
    bvals.extend(specials());

    let na = avals.len();
    let nb = bvals.len();
    r.add_sample(json!({"a": hexf(avals[7]), "b": hexf(bvals[11]), "kind": "absolute pair"}));
    r.notes.push(format!("a alphabet: {} values (all 2046 normal exponents x {} fractions x 2 signs, {} subnormal patterns, specials); absolute b alphabet: {} values (all 2046 normal exponents x {} fractions x 2 signs, 52 subnormal positions, specials)", na, afr.len(), subfr.len(), nb, bfr.len()));

    // ---- phase 1: threshold-relative b for every a (exact cross-check on)
    let rel_k = if quick { 2 } else { 3 };
    let mut arel: Vec<f64> = Vec::new();
    {
        let mut fr = run_bounded(52, rel_k);
        for &f in &bitfr {
            if !fr.contains(&f) {
                fr.push(f);
            }
        }
        let exps: Vec<i32> = (-1022..=1023).collect();
        for &e in &exps {
            // quick: R_2 on a thinned exponent set + R_1-ish on all; thorough: R_3 on all
            let dense = !quick || e < -960 || e > 1010 || (e + 1022) % 16 == 0 || (-60..=60).contains(&e);
            for &f in &fr {
                if !dense && !afr.contains(&f) {
                    continue;
                }
                for s in [false, true] {
                    arel.push(mk_f64(s, e, f).unwrap());
                }
            }
        }
        for &f in &subfr {
            if f != 0 {
                arel.push(mk_subnormal(false, f));
                arel.push(mk_subnormal(true, f));
            }
        }
    }
    let nrel = arel.len();
    let chunk = 256usize;
    let nchunks = (nrel + chunk - 1) / chunk;
    let per_a = 4 * 7 * 2 * 2; // j, i, sign, (same count) upper bound
    let rr = r.recorder();
    r.par("threshold-relative", nchunks, 0, |c, l: &mut Local| {
        let lo = c * chunk;
        let hi = ((c + 1) * chunk).min(nrel);
        for ai in lo..hi {
            let a = arel[ai];
            // half ulp of a (for subnormals: 2^-1075 is not representable: use 2^-1074)
            let ex = ((a.to_bits() >> 52) & 0x7ff) as i32;
            let e = if ex == 0 { -1022 } else { ex - 1023 };
            let mut n = 0u64;
            for j in -2..=1 {
                let te = e - 53 + j;
                let t = if te >= -1074 { tfref::big::pow2_f64(te) } else { continue };
                for i in -3..=3 {
                    let bb = step(t, i);
                    for s in [1.0f64, -1.0] {
                        let b = s * bb;
                        let idx = (ai as u64) * per_a as u64 + n;
                        n += 1;
                        let v = judge(a, b, true);
                        l.count(if spec(a, b, false) { "spec_true" } else { "spec_false" }, 1);
                        rr.record(l, idx, v);
                    }
                }
            }
        }
    });
    r.states += (nrel as u64) * 56;

    // ---- phase 2: absolute pairs (hardware oracle; exact cross-check near the threshold)
    let base_idx = (nrel as u64) * per_a as u64;
    let chunk = 16usize;
    let nchunks = (na + chunk - 1) / chunk;
    r.par("absolute-pairs", nchunks, (na as u64) * (nb as u64), |c, l: &mut Local| {
        let lo = c * chunk;
        let hi = ((c + 1) * chunk).min(na);
        let mut t = 0u64;
        let mut f = 0u64;
        for ai in lo..hi {
            let a = avals[ai];
            let ea = ((a.to_bits() >> 52) & 0x7ff) as i32;
            for (bi, &b) in bvals.iter().enumerate() {
                let eb = ((b.to_bits() >> 52) & 0x7ff) as i32;
                let cross = (ea - eb - 53).abs() <= 2;
                let idx = base_idx + (ai as u64) * (nb as u64) + bi as u64;
                let v = judge(a, b, cross);
                if spec(a, b, false) {
                    t += 1
                } else {
                    f += 1
                }
                rr.record(l, idx, v);
            }
        }
        l.count("spec_true", t);
        l.count("spec_false", f);
    });
    {
        use crate::hist::HCall;
        // histories of validity queries: a pair, its mirror image (low word negated), its negation and pairs on the other
        // side of the threshold, queried in every order (a memo keyed on magnitudes would confuse them)
        let mut groups: Vec<Vec<HCall>> = vec![];
        for (h, lo) in [(1.0, 2f64.powi(-53)), (4.0, 0.75 * 2f64.powi(-51)), (1.5, 2f64.powi(-53)), (2f64.powi(-969), 2f64.powi(-1023)), (3.0, 2f64.powi(-52))] {
            let mut g = vec![];
            for w in [[h, lo], [h, -lo], [-h, lo], [-h, -lo], [h, 0.5 * lo], [h, 2.0 * lo], [lo, h]] {
                g.push(HCall::ext(13, w, [0.0, 0.0]));
            }
            groups.push(g);
        }
        crate::hist::explore(r, "histories: no_overlap / is_valid / try_from on mirrored pairs", &groups, 3, &hist_judge, 1u64 << 62);
    }
}
