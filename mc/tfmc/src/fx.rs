//! Shared machinery for the elementary-function properties (C12-C18): precision escalation,
//! the three-valued decision, standard operand grids.
use crate::grid::{dd_grid, dedup};
use crate::run::{Local, Verdict};
use crate::util::show_dd;
use tfref::alpha::{gen_fracs, run_bounded, run_bounded_at, weyl_fracs};
use tfref::bf::{Bf, Iv};
use tfref::oracle::{decide, Dec};

pub const PRECS: [u64; 3] = [160, 320, 640];

/// Judge |r - E| <= tol.  `reference(p)` must return (E, tol) enclosures at working precision p, or
/// None when the clause makes no claim for this input.  An undecided comparison escalates the
/// precision; a residual undecided is a machinery failure (panic), never a verdict.
pub fn judge_tol(clause: &'static str, call: &'static str, args: &[u64], r: [f64; 2], reference: impl Fn(u64) -> Option<(Iv, Iv)>, l: Option<&mut Local>) -> Verdict {
    if !r[0].is_finite() || !r[1].is_finite() {
        // a non-finite result can never be within a finite tolerance of a finite value
        return match reference(PRECS[0]) {
            None => Verdict::Skip,
            Some((e, _)) => Verdict::fail(clause, call, args, show_dd(r), format!("a finite value near {:e}", e.approx_f64()), if r[0].is_nan() { "nan_result" } else if r[0].is_infinite() { "hi_nonfinite" } else { "lo_nonfinite" }),
        };
    }
    let rb = Bf::from_dd(r[0], r[1]);
    for &p in PRECS.iter() {
        let (e, tol) = match reference(p) {
            None => return Verdict::Skip,
            Some(x) => x,
        };
        match decide(&rb, &e, &tol) {
            Dec::Pass(ratio) => {
                if let Some(l) = l {
                    if ratio > 0.02 {
                        l.worst(clause, ratio, || format!("{} {:?}", call, args.chunks(2).map(|c| show_dd([f64::from_bits(c[0]), f64::from_bits(*c.get(1).unwrap_or(&0))])).collect::<Vec<_>>()));
                    }
                }
                return Verdict::Pass;
            }
            Dec::Fail(ratio) => {
                return Verdict::fail(clause, call, args, show_dd(r), format!("reference {:e} (enclosure at {} bits), |error|/tolerance = {:.4e}", e.approx_f64(), p, ratio), "over_tolerance").with_extra(serde_json::json!({"reference_lo": e.lo.to_hex(), "reference_hi": e.hi.to_hex(), "tolerance_lo": tol.lo.to_hex()}));
            }
            Dec::Undecided => continue,
        }
    }
    panic!("oracle could not decide {} {} {:?} even at {} bits", clause, call, args, PRECS[PRECS.len() - 1]);
}

pub fn exact_zero(r: [f64; 2]) -> bool {
    r[0] == 0.0 && r[1] == 0.0
}
pub fn is_invalid(r: [f64; 2]) -> bool {
    !tfref::big::dd_valid_fast(r[0], r[1])
}

/// exact value of a double-double as Bf
pub fn bfx(x: [f64; 2]) -> Bf {
    Bf::from_dd(x[0], x[1])
}

/// Generic double-double grid: exponents x (structured + generic fractions) x low-word variants.
pub fn grid(exps: &[i32], quick: bool, stream: u64) -> Vec<[f64; 2]> {
    let pos: Vec<u32> = vec![1, 2, 3, 26, 27, 50, 51];
    let mut hf = if quick { run_bounded_at(52, 2, &pos) } else { run_bounded(52, 2) };
    hf.extend(gen_fracs(if quick { 4 } else { 6 }));
    hf.extend(weyl_fracs(if quick { 8 } else { 16 }, stream));
    let lf = vec![0u64, (1u64 << 52) - 1, weyl_fracs(1, stream + 1)[0]];
    let gaps: Vec<i32> = if quick { vec![0, 1, 10, 30, 53] } else { vec![0, 1, 2, 10, 30, 53, 200] };
    let mut v = dd_grid(exps, &hf, &gaps, &lf, &[]);
    dedup(&mut v);
    v
}

/// a thinner grid: only generic fractions (for expensive two-argument functions)
pub fn grid_thin(exps: &[i32], nfr: usize, stream: u64) -> Vec<[f64; 2]> {
    let mut hf = vec![0u64, (1u64 << 52) - 1, 1u64 << 51];
    hf.extend(weyl_fracs(nfr, stream));
    let lf = vec![(1u64 << 52) - 1, weyl_fracs(1, stream + 1)[0]];
    let mut v = dd_grid(exps, &hf, &[0, 2, 40], &lf, &[]);
    dedup(&mut v);
    v
}

pub fn words(x: [f64; 2]) -> [u64; 2] {
    [x[0].to_bits(), x[1].to_bits()]
}

/// exponent ladder "log-uniformly towards 0": every exponent in [-70, hi] (quick) or in [lo, hi]
/// (thorough), and every 13th one below -70 in the quick tier
pub fn dense_exps(lo: i32, hi: i32, quick: bool) -> Vec<i32> {
    let mut v: Vec<i32> = if quick { (lo..=hi).filter(|e| *e >= -70 || (e - lo) % 13 == 0).collect() } else { (lo..=hi).collect() };
    v.dedup();
    v
}

/// Linear ladder: all j/denom for j in jlo..=jhi (both signs if `both`), each with zero low word and
/// low words of both signs at two gaps.  Covers the interior of every O(1) range-reduction interval.
pub fn linear_ladder(jlo: i64, jhi: i64, denom: f64, both: bool) -> Vec<[f64; 2]> {
    let mut v: Vec<[f64; 2]> = vec![];
    for j in jlo..=jhi {
        let h = j as f64 / denom;
        if h == 0.0 {
            continue;
        }
        let signs: &[f64] = if both { &[1.0, -1.0] } else { &[1.0] };
        for &s in signs {
            let hi = s * h;
            v.push([hi, 0.0]);
            let e = crate::grid::exp_of(hi);
            for g in [0, 9] {
                for ls in [1.0, -1.0] {
                    let lo = ls * 2f64.powi(e - 54 - g) * 1.3125;
                    if tfref::big::dd_valid_fast(hi, lo) {
                        v.push([hi, lo]);
                    }
                }
            }
        }
    }
    v
}

/// The double-double nearest to an exact/enclosed value (lower end of the enclosure), if finite.
pub fn dd_of(e: &Iv) -> Option<[f64; 2]> {
    e.lo.to_dy().to_dd_rn().map(|t| [t.0, t.1])
}

/// The first `n` members of the fixed generic double-double stream `stream` with high-word exponents in
/// [emin, emax] (full-size mantissas in both words; see tfref::alpha::generic_dd).
pub fn generic_stream(n: u64, stream: u64, emin: i32, emax: i32) -> Vec<[f64; 2]> {
    (0..n).filter_map(|i| tfref::alpha::generic_dd(i, stream, emin, emax)).collect()
}
