//! Shared machinery for the elementary-function properties (C12-C18): precision escalation,
//! the three-valued decision, standard operand grids.
use crate::grid::{dd_grid, dedup};
use crate::run::{Local, Verdict};
use crate::util::show_dd;
use tfref::alpha::{gen_fracs, run_bounded, run_bounded_at, weyl_fracs};
use tfref::bf::{Bf, Iv};
use tfref::oracle::{decide, Dec};

pub const PRECS: [u64; 3] = [160, 320, 640];

/// Judge |r - E| <= tol.  `reference(p)` must return (E, tol) enclosures at working precision p, or
/// None when the clause makes no claim for this input.  An undecided comparison escalates the
/// precision; a residual undecided is a machinery failure (panic), never a verdict.
pub fn judge_tol(clause: &'static str, call: &'static str, args: &[u64], r: [f64; 2], reference: impl Fn(u64) -> Option<(Iv, Iv)>, l: Option<&mut Local>) -> Verdict {
    if !r[0].is_finite() || !r[1].is_finite() {
        // a non-finite result can never be within a finite tolerance of a finite value
        return match reference(PRECS[0]) {
            None => Verdict::Skip,
            Some((e, _)) => Verdict::fail(clause, call, args, show_dd(r), format!("a finite value near {:e}", e.approx_f64()), if r[0].is_nan() { "nan_result" } else if r[0].is_infinite() { "hi_nonfinite" } else { "lo_nonfinite" }),
        };
    }
    let rb = Bf::from_dd(r[0], r[1]);
    for &p in PRECS.iter() {
        let (e, tol) = match reference(p) {
            None => return Verdict::Skip,
            Some(x) => x,
        };
        match decide(&rb, &e, &tol) {
            Dec::Pass(ratio) => {
                if let Some(l) = l {
                    if ratio > 0.02 {
                        l.worst(clause, ratio, || format!("{} {:?}", call, args.chunks(2).map(|c| show_dd([f64::from_bits(c[0]), f64::from_bits(*c.get(1).unwrap_or(&0))])).collect::<Vec<_>>()));
                    }
                }
                return Verdict::Pass;
            }
            Dec::Fail(ratio) => {
                return Verdict::fail(clause, call, args, show_dd(r), format!("reference {:e} (enclosure at {} bits), |error|/tolerance = {:.4e}", e.approx_f64(), p, ratio), "over_tolerance").with_extra(serde_json::json!({"reference_lo": e.lo.to_hex(), "reference_hi": e.hi.to_hex(), "tolerance_lo": tol.lo.to_hex()}));
            }
            Dec::Undecided => continue,
        }
    }
    panic!("oracle could not decide {} {} {:?} even at {} bits", clause, call, args, PRECS[PRECS.len() - 1]);
}

pub fn exact_zero(r: [f64; 2]) -> bool {
    r[0] == 0.0 && r[1] == 0.0
}
pub fn is_invalid(r: [f64; 2]) -> bool {
    !tfref::big::dd_valid_fast(r[0], r[1])
}

/// exact value of a double-double as Bf
pub fn bfx(x: [f64; 2]) -> Bf {
    Bf::from_dd(x[0], x[1])
}

/// Generic double-double grid: exponents x (structured + generic fractions) x low-word variants.
pub fn grid(exps: &[i32], quick: bool, stream: u64) -> Vec<[f64; 2]> {
    let pos: Vec<u32> = vec![1, 2, 3, 26, 27, 50, 51];
    let mut hf = if quick { run_bounded_at(52, 2, &pos) } else { run_bounded(52, 2) };
    hf.extend(gen_fracs(if quick { 4 } else { 6 }));
    hf.extend(weyl_fracs(if quick { 8 } else { 16 }, stream));
    let lf = vec![0u64, (1u64 << 52) - 1, weyl_fracs(1, stream + 1)[0]];
    let gaps: Vec<i32> = if quick { vec![0, 1, 10, 30, 53] } else { vec![0, 1, 2, 10, 30, 53, 200] };
    let mut v = dd_grid(exps, &hf, &gaps, &lf, &[]);
    dedup(&mut v);
    v
}

/// a thinner grid: only generic fractions (for expensive two-argument functions)
pub fn grid_thin(exps: &[i32], nfr: usize, stream: u64) -> Vec<[f64; 2]> {
    let mut hf = vec![0u64, (1u64 << 52) - 1, 1u64 << 51];
    hf.extend(weyl_fracs(nfr, stream));
    let lf = vec![(1u64 << 52) - 1, weyl_fracs(1, stream + 1)[0]];
    let mut v = dd_grid(exps, &hf, &[0, 2, 40], &lf, &[]);
    dedup(&mut v);
    v
}

pub fn words(x: [f64; 2]) -> [u64; 2] {
    [x[0].to_bits(), x[1].to_bits()]
}

/// exponent ladder "log-uniformly towards 0": every exponent in [-70, hi] (quick) or in [lo, hi]
/// (thorough), and every 13th one below -70 in the quick tier
pub fn dense_exps(lo: i32, hi: i32, quick: bool) -> Vec<i32> {
    let mut v: Vec<i32> = if quick { (lo..=hi).filter(|e| *e >= -70 || (e - lo) % 13 == 0).collect() } else { (lo..=hi).collect() };
    v.dedup();
    v
}

/// Linear ladder: all j/denom for j in jlo..=jhi (both signs if `both`), each with zero low word and
/// low words of both signs at two gaps.  Covers the interior of every O(1) range-reduction interval.
pub fn linear_ladder(jlo: i64, jhi: i64, denom: f64, both: bool) -> Vec<[f64; 2]> {
    let mut v: Vec<[f64; 2]> = vec![];
    for j in jlo..=jhi {
        let h = j as f64 / denom;
        if h == 0.0 {
            continue;
        }
        let signs: &[f64] = if both { &[1.0, -1.0] } else { &[1.0] };
        for &s in signs {
            let hi = s * h;
            v.push([hi, 0.0]);
            let e = crate::grid::exp_of(hi);
            for g in [0, 9] {
                for ls in [1.0, -1.0] {
                    let lo = ls * 2f64.powi(e - 54 - g) * 1.3125;
                    if tfref::big::dd_valid_fast(hi, lo) {
                        v.push([hi, lo]);
                    }
                }
            }
        }
    }
    v
}

/// The double-double nearest to an exact/enclosed value (lower end of the enclosure), if finite.
pub fn dd_of(e: &Iv) -> Option<[f64; 2]> {
    e.lo.to_dy().to_dd_rn().map(|t| [t.0, t.1])
}

/// The first `n` members of the fixed generic double-double stream `stream` with high-word exponents in
/// [emin, emax] (full-size mantissas in both words; see tfref::alpha::generic_dd).
pub fn generic_stream(n: u64, stream: u64, emin: i32, emax: i32) -> Vec<[f64; 2]> {
    (0..n).filter_map(|i| tfref::alpha::generic_dd(i, stream, emin, emax)).collect()
}

/// Offsets (in units of 2^-106 relative to the binade of the base point) used by `neighbourhood`:
/// every count up to 80 — beyond any plausible "snap" tolerance measured in double-double ulps — and
/// a geometric tail up to 2^40 units.
pub fn ulp_offsets() -> Vec<i64> {
    let mut v: Vec<i64> = (0..=80).collect();
    v.extend([96, 128, 192, 256, 384, 512, 1024, 4096, 1 << 14, 1 << 16, 1 << 20, 1 << 24, 1 << 30, 1 << 40]);
    v
}

/// The double-doubles x0 + s·j·2^(e-106) (e = exponent of x0's high word, s = ±1, j in `js`): the two-sided
/// neighbourhood of a base point counted in double-double ulps.  Used around pre-images of "nice"
/// results (whole degrees, integers, published constants), where an implementation may snap or shortcut.
pub fn neighbourhood(x0: [f64; 2], js: &[i64]) -> Vec<[f64; 2]> {
    let mut v = vec![];
    if !(x0[0].is_finite() && x0[0] != 0.0) {
        return v;
    }
    let e = crate::grid::exp_of(x0[0]);
    if e - 106 < -1000 {
        return v;
    }
    let base = tfref::big::Dy::from_dd(x0[0], x0[1]);
    for &j in js {
        for s in [1.0, -1.0] {
            if j == 0 && s < 0.0 {
                continue;
            }
            let d = tfref::big::Dy::from_f64(s * j as f64 * 2f64.powi(e - 106));
            if let Some((h, l)) = base.add(&d).to_dd_rn() {
                if tfref::big::dd_valid_fast(h, l) {
                    v.push([h, l]);
                }
            }
        }
    }
    v
}

/// "Nice" values a user or an implementation may treat specially: small integers, simple fractions, the
/// published constants (all as exact points; irrational ones rounded to 300 bits).
fn nice_points() -> Vec<Bf> {
    use tfref::rf;
    let p = 300;
    let mut v: Vec<Bf> = vec![];
    for k in [1i64, 2, 3, 4, 5, 6, 7, 8, 9, 10, 16, 32, 64, 100, 1000] {
        v.push(Bf::from_i64(k));
    }
    for (n, d) in [(1i64, 2u64), (1, 4), (1, 8), (3, 2), (3, 4), (5, 2), (1, 3), (2, 3), (1, 10), (1, 5), (1, 16), (1, 1024)] {
        v.push(Iv::from_i64(n).div_small(d, p).lo);
    }
    let pi = rf::pi(p);
    for (n, d) in [(1u64, 1u64), (2, 1), (1, 2), (1, 3), (1, 4), (1, 6), (1, 8), (3, 4), (3, 2), (2, 3), (5, 6), (1, 180)] {
        v.push(pi.mul_small(n, p).div_small(d, p).lo);
    }
    let one = Bf::from_i64(1);
    v.push(rf::exp_pt(&one, p).lo);
    v.push(rf::ln2(p).lo);
    v.push(rf::ln10(p).lo);
    v.push(rf::sqrt_pt(&Bf::from_i64(2), p).lo);
    v.push(rf::sqrt_pt(&Bf::from_i64(2), p).mul_pow2(-1).lo);
    v.push(rf::sqrt_pt(&Bf::from_i64(3), p).lo);
    v.push(rf::sqrt_pt(&Bf::from_i64(3), p).mul_pow2(-1).lo);
    v.push(Iv::from_i64(1).div(&rf::sqrt_pt(&Bf::from_i64(3), p), p).lo);
    v.push(Iv::from_i64(1).div(&pi, p).lo);
    v.push(Iv::from_i64(2).div(&pi, p).lo);
    let n = v.len();
    for i in 0..n {
        let m = v[i].neg();
        v.push(m);
    }
    v
}

/// Base points around which implementations may snap or shortcut: the nice points themselves and their
/// images under every elementary function of the crate (so that, for each function f of the crate, the
/// pre-images of nice results of f are present: ln k for exp, e^k for ln, asin(1/2) for sin, sinh 1 for asinh, ...).
pub fn nice_bases() -> Vec<[f64; 2]> {
    use tfref::rf;
    let p = 240;
    let pts = nice_points();
    let one = Bf::from_i64(1);
    let mut out: Vec<[f64; 2]> = vec![];
    let mut put = |e: Iv| {
        if let Some(x) = dd_of(&e) {
            if x[0].is_finite() && x[0] != 0.0 && x[0].abs() < 2f64.powi(300) && x[0].abs() > 2f64.powi(-300) {
                out.push(x);
            }
        }
    };
    for t in &pts {
        let a = t.abs();
        put(Iv::point(t));
        put(Iv::point(t).sqr(p));
        put(Iv::point(t).sqr(p).mul(&Iv::point(t), p));
        if a.approx_f64() < 700.0 {
            put(rf::exp_pt(t, p));
            put(rf::expm1_pt(t, p));
            put(rf::exp2_pt(t, p));
            put(rf::sinh_pt(t, p));
            put(rf::cosh_pt(t, p));
            put(rf::tanh_pt(t, p));
        }
        if a.approx_f64() < 300.0 {
            put(rf::pow_pt(&Bf::from_i64(10), t, p));
        }
        if t.sign() > 0 {
            put(rf::ln_pt(t, p));
            put(rf::log2_pt(t, p));
            put(rf::log10_pt(t, p));
            put(rf::sqrt_pt(t, p));
        }
        if one.add_exact(t).sign() > 0 {
            put(rf::log1p_pt(t, p));
        }
        let (s, c) = rf::sincos_pt(t, p);
        put(s);
        put(c);
        put(rf::tan_pt(t, p));
        put(rf::atan_pt(t, p));
        put(rf::asinh_pt(t, p));
        if a.cmp(&one) != core::cmp::Ordering::Greater {
            put(rf::asin_pt(t, p));
            put(rf::acos_pt(t, p));
        }
        if a.cmp(&one) == core::cmp::Ordering::Less {
            put(rf::atanh_pt(t, p));
        }
        if t.cmp(&one) != core::cmp::Ordering::Less {
            put(rf::acosh_pt(t, p));
        }
    }
    out.sort_by(|a, b| (a[0].to_bits(), a[1].to_bits()).cmp(&(b[0].to_bits(), b[1].to_bits())));
    out.dedup_by(|a, b| a[0].to_bits() == b[0].to_bits() && a[1].to_bits() == b[1].to_bits());
    out
}

/// Double-double neighbourhoods of `nice_bases()`: quick = offsets 0..16 and a geometric tail, thorough = `ulp_offsets()`.
pub fn nice_neighbourhoods(quick: bool) -> Vec<[f64; 2]> {
    let js: Vec<i64> = if quick { (0..=16).chain([24, 32, 48, 64, 80, 128, 1024, 1 << 20, 1 << 40]).collect() } else { ulp_offsets() };
    let mut v = vec![];
    for b in nice_bases() {
        v.extend(neighbourhood(b, &js));
    }
    v
}

/// Operands for "the same object on both sides" (`&x op &x`): a grid over the given exponent range,
/// the one-call chain states and a generic stream.
pub fn self_alphabet(quick: bool, emin: i32, emax: i32, stream: u64) -> Vec<[f64; 2]> {
    let exps: Vec<i32> = if quick { (emin..=emax).step_by(((emax - emin) / 24).max(1) as usize).chain([emin, -1, 0, 1, emax]).collect() } else { (emin..=emax).collect() };
    let mut v = grid(&exps, quick, stream);
    v.extend(crate::organic::states(1));
    v.extend(generic_stream(if quick { 100_000 } else { 10_000_000 }, stream + 7, emin, emax));
    v.push([0.0, 0.0]);
    v.push([-0.0, 0.0]);
    dedup(&mut v);
    v
}

/// Both sides of the end point ±E of a stated range: E itself, its double-double neighbourhood
/// (0..16 ulps and a geometric tail), and its f64 neighbours with a few low words.
pub fn edge_points(es: &[f64], quick: bool) -> Vec<[f64; 2]> {
    let js: Vec<i64> = if quick { (0..=16).chain([64, 1024, 1 << 20, 1 << 40, 1 << 50]).collect() } else { ulp_offsets().into_iter().chain([1 << 50, 1 << 52]).collect() };
    let mut v = vec![];
    for &e in es {
        for s in [1.0, -1.0] {
            let x = s * e;
            v.extend(neighbourhood([x, 0.0], &js));
            // the smallest possible low words of either sign on the end point itself (a guard that goes through
            // arithmetic may lose them to underflow)
            for lo in [5e-324, 1e-323, 2f64.powi(-1070), 2f64.powi(-1022), 2f64.powi(-1021), 2f64.powi(-600)] {
                v.push([x, lo]);
                v.push([x, -lo]);
            }
            for k in 1..=3u64 {
                for h in [f64::from_bits(x.to_bits() + k), f64::from_bits(x.to_bits() - k)] {
                    v.extend(crate::grid::with_los(h, &[0, 1, 30], &[0, (1u64 << 52) - 1], &[]));
                }
            }
        }
    }
    v.retain(|w| tfref::big::dd_valid_fast(w[0], w[1]));
    v
}

/// Relational operand pairs for two-argument entry points: for every x of `xs` the partners x itself, -x,
/// 2x, x/2, the next double-double above and below x, x with its low word dropped / negated, 1 and -1.
/// A shortcut keyed on `a == b`, `a == -b`, equal high words or a fixed ratio shows only on such pairs.
pub fn relational_pairs(xs: &[[f64; 2]]) -> Vec<([f64; 2], [f64; 2])> {
    let mut v = vec![];
    for &x in xs {
        if !(x[0].is_finite() && tfref::big::dd_valid_fast(x[0], x[1])) {
            continue;
        }
        let mut ps: Vec<[f64; 2]> = vec![x, [-x[0], -x[1]], [2.0 * x[0], 2.0 * x[1]], [0.5 * x[0], 0.5 * x[1]], [x[0], 0.0], [x[0], -x[1]], [1.0, 0.0], [-1.0, 0.0]];
        ps.extend(neighbourhood(x, &[1, 2]));
        for p in ps {
            if p[0].is_finite() && tfref::big::dd_valid_fast(p[0], p[1]) {
                v.push((x, p));
            }
        }
    }
    v
}
