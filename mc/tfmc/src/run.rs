//! Runner: deterministic parallel enumeration, statistics, violations, known findings,
//! evidence files.

use serde_json::{json, Value};
use std::collections::BTreeMap;
use std::sync::atomic::{AtomicU64, AtomicUsize, Ordering};
use std::sync::Mutex;
use std::time::Instant;

#[derive(Clone, Debug)]
pub struct Viol {
    /// enumeration index (global order) — the smallest one is reported
    pub index: u64,
    pub clause: String,
    pub call: String,
    /// operand words, hex
    pub args: Vec<String>,
    pub observed: String,
    pub expected: String,
    /// failure signature (small vocabulary), used to match known findings
    pub sig: String,
    /// region tags evaluated by the oracle on the operands (small vocabulary)
    pub region: Vec<String>,
    pub extra: Value,
}

pub enum Verdict {
    Pass,
    /// outside the claimed range of the clause: nothing to judge
    Skip,
    Fail(Box<Viol>),
}

impl Verdict {
    pub fn fail(clause: &str, call: &str, args: &[u64], observed: String, expected: String, sig: &str) -> Verdict {
        Verdict::Fail(Box::new(Viol {
            index: 0,
            clause: clause.to_string(),
            call: call.to_string(),
            args: args.iter().map(|w| format!("0x{:016x}", w)).collect(),
            observed,
            expected,
            sig: sig.to_string(),
            region: vec![],
            extra: Value::Null,
        }))
    }
    pub fn with_region(self, r: &[&str]) -> Verdict {
        match self {
            Verdict::Fail(mut v) => {
                v.region = r.iter().map(|s| s.to_string()).collect();
                Verdict::Fail(v)
            }
            o => o,
        }
    }
    pub fn with_extra(self, e: Value) -> Verdict {
        match self {
            Verdict::Fail(mut v) => {
                v.extra = e;
                Verdict::Fail(v)
            }
            o => o,
        }
    }
    pub fn is_fail(&self) -> bool {
        matches!(self, Verdict::Fail(_))
    }
}

#[derive(Clone, Debug)]
pub struct Known {
    pub property: String,
    pub call: String,
    pub clause: String,
    pub sig: String,
    pub region: String,
    pub description: String,
}

pub fn load_known(path: &str, property: &str) -> (Vec<Known>, Vec<String>) {
    let txt = match std::fs::read_to_string(path) {
        Ok(t) => t,
        Err(_) => return (vec![], vec![]),
    };
    let v: Value = serde_json::from_str(&txt).expect("known_findings.json: invalid JSON");
    let mut out = vec![];
    if let Some(a) = v.get("open").and_then(|x| x.as_array()) {
        for e in a {
            let g = |k: &str| e.get(k).and_then(|x| x.as_str()).unwrap_or("").to_string();
            if g("property") == property {
                out.push(Known {
                    property: g("property"),
                    call: g("call"),
                    clause: g("clause"),
                    sig: g("observed"),
                    region: g("region"),
                    description: g("description"),
                });
            }
        }
    }
    let fixed = v
        .get("fixed")
        .and_then(|x| x.as_array())
        .map(|a| a.iter().filter_map(|s| s.as_str().map(|s| s.to_string())).collect())
        .unwrap_or_default();
    (out, fixed)
}

/// Per-thread accumulator, merged deterministically (in chunk order) by the Runner.
#[derive(Default)]
pub struct Local {
    pub transitions: u64,
    pub skipped: u64,
    pub viols: Vec<Viol>,
    pub nviol: u64,
    pub known_hits: BTreeMap<usize, u64>,
    /// per clause: (worst ratio observed/tolerance, sample description)
    pub worst: BTreeMap<String, (f64, String)>,
    pub counters: BTreeMap<String, u64>,
    pub digest: u64,
    pub samples: Vec<Value>,
}

impl Local {
    #[inline]
    pub fn worst(&mut self, clause: &str, ratio: f64, sample: impl FnOnce() -> String) {
        match self.worst.get_mut(clause) {
            Some(e) => {
                if ratio > e.0 {
                    *e = (ratio, sample());
                }
            }
            None => {
                self.worst.insert(clause.to_string(), (ratio, sample()));
            }
        }
    }
    #[inline]
    pub fn count(&mut self, key: &str, n: u64) {
        if let Some(c) = self.counters.get_mut(key) {
            *c += n;
        } else {
            self.counters.insert(key.to_string(), n);
        }
    }
}

/// The part of the runner that worker closures need (shared, read-only).
pub struct Recorder {
    pub known: Vec<Known>,
    pub max_viols_kept: usize,
}

pub struct Runner {
    pub rec: std::sync::Arc<Recorder>,
    pub property: String,
    pub tier: String,
    pub seed: i64,
    pub threads: usize,
    pub known: Vec<Known>,
    pub fixed: Vec<String>,
    pub start: Instant,
    pub max_viols_kept: usize,
    // merged
    pub transitions: u64,
    pub states: u64,
    pub skipped: u64,
    pub nviol: u64,
    pub viols: Vec<Viol>,
    pub known_hits: BTreeMap<usize, u64>,
    pub worst: BTreeMap<String, (f64, String)>,
    pub counters: BTreeMap<String, u64>,
    pub digest: u64,
    pub samples: Vec<Value>,
    pub phases: Vec<Value>,
    pub distinct: DistinctSketch,
    pub exhaustive: bool,
    pub notes: Vec<String>,
    pub wall_cap_s: f64,
    pub capped: bool,
}

/// Linear-counting sketch for the number of distinct result words (2^28 bits = 32 MiB).
pub struct DistinctSketch {
    bits: Vec<AtomicU64>,
}
impl DistinctSketch {
    pub fn new() -> Self {
        let n = 1usize << 22; // 2^22 * 64 = 2^28 bits
        let mut v = Vec::with_capacity(n);
        for _ in 0..n {
            v.push(AtomicU64::new(0));
        }
        DistinctSketch { bits: v }
    }
    #[inline]
    pub fn add(&self, h: u64) {
        let h = mix(h);
        let idx = (h >> 6) as usize & (self.bits.len() - 1);
        let bit = 1u64 << (h & 63);
        // relaxed load first to avoid needless RMW traffic
        if self.bits[idx].load(Ordering::Relaxed) & bit == 0 {
            self.bits[idx].fetch_or(bit, Ordering::Relaxed);
        }
    }
    /// (estimate, saturated?)
    pub fn estimate(&self) -> (u64, bool) {
        let m = (self.bits.len() * 64) as f64;
        let set: u64 = self.bits.iter().map(|w| w.load(Ordering::Relaxed).count_ones() as u64).sum();
        let z = m - set as f64;
        if z < 1.0 {
            return (set, true);
        }
        ((-(m) * (z / m).ln()).round() as u64, set as f64 > 0.95 * m)
    }
    pub fn set_bits(&self) -> u64 {
        self.bits.iter().map(|w| w.load(Ordering::Relaxed).count_ones() as u64).sum()
    }
}

#[inline]
pub fn mix(mut h: u64) -> u64 {
    h ^= h >> 33;
    h = h.wrapping_mul(0xff51afd7ed558ccd);
    h ^= h >> 33;
    h = h.wrapping_mul(0xc4ceb9fe1a85ec53);
    h ^= h >> 33;
    h
}
#[inline]
pub fn hash_words(ws: &[u64]) -> u64 {
    let mut h = 0x9e3779b97f4a7c15u64;
    for &w in ws {
        h = mix(h ^ w).wrapping_add(0x9e3779b97f4a7c15);
    }
    h
}

impl Recorder {
    /// Classify a failing verdict: returns Some(known index) if it matches an open finding.
    fn match_known(&self, v: &Viol) -> Option<usize> {
        for (i, k) in self.known.iter().enumerate() {
            if k.call == v.call && (k.clause.is_empty() || k.clause == v.clause) && k.sig == v.sig && (k.region.is_empty() || v.region.iter().any(|r| *r == k.region)) {
                return Some(i);
            }
        }
        None
    }

    /// Record a verdict into a thread-local accumulator.
    #[inline]
    pub fn record(&self, l: &mut Local, index: u64, v: Verdict) {
        match v {
            Verdict::Pass => l.transitions += 1,
            Verdict::Skip => l.skipped += 1,
            Verdict::Fail(mut b) => {
                l.transitions += 1;
                b.index = index;
                if let Some(k) = self.match_known(&b) {
                    *l.known_hits.entry(k).or_insert(0) += 1;
                } else {
                    l.nviol += 1;
                    l.count(&format!("VIOLATION-KIND call={} clause={} observed={} region={}", b.call, b.clause, b.sig, b.region.join("+")), 1);
                    if l.viols.len() < self.max_viols_kept {
                        l.viols.push(*b);
                    } else if let Some(mx) = l.viols.iter_mut().max_by_key(|x| (!x.call.starts_with("hist"), x.index)) {
                        if (!b.call.starts_with("hist"), b.index) < (!mx.call.starts_with("hist"), mx.index) {
                            *mx = *b;
                        }
                    }
                }
            }
        }
    }

}

impl Runner {
    pub fn new(property: &str, tier: &str, known_path: &str) -> Runner {
        let seed = std::env::var("VERIF_SEED").ok().and_then(|s| s.parse::<i64>().ok()).unwrap_or(0);
        let threads = std::env::var("TFMC_THREADS")
            .ok()
            .and_then(|s| s.parse::<usize>().ok())
            .unwrap_or_else(|| std::thread::available_parallelism().map(|n| n.get()).unwrap_or(4));
        let (known, fixed) = load_known(known_path, property);
        let wall_cap_s = std::env::var("TFMC_WALL_CAP_S").ok().and_then(|s| s.parse::<f64>().ok()).unwrap_or(if tier == "quick" { 600.0 } else { 6.0 * 3600.0 });
        Runner {
            property: property.to_string(),
            tier: tier.to_string(),
            seed,
            threads,
            rec: std::sync::Arc::new(Recorder { known: known.clone(), max_viols_kept: 8 }),
            known,
            fixed,
            start: Instant::now(),
            max_viols_kept: 8,
            transitions: 0,
            states: 0,
            skipped: 0,
            nviol: 0,
            viols: vec![],
            known_hits: BTreeMap::new(),
            worst: BTreeMap::new(),
            counters: BTreeMap::new(),
            digest: 0,
            samples: vec![],
            phases: vec![],
            distinct: DistinctSketch::new(),
            exhaustive: true,
            notes: vec![],
            wall_cap_s,
            capped: false,
        }
    }

    pub fn quick(&self) -> bool {
        self.tier == "quick"
    }

    pub fn recorder(&self) -> std::sync::Arc<Recorder> {
        self.rec.clone()
    }

    /// Run `nchunks` chunks of work over the thread pool. `f(chunk, &mut Local)` must be a pure
    /// function of `chunk`. Results are merged in chunk order; `phase` labels the evidence.
    pub fn par<F>(&mut self, phase: &str, nchunks: usize, states: u64, f: F)
    where
        F: Fn(usize, &mut Local) + Sync,
    {
        let t0 = Instant::now();
        let next = AtomicUsize::new(0);
        let results: Mutex<Vec<(usize, Local)>> = Mutex::new(Vec::new());
        let capped = std::sync::atomic::AtomicBool::new(false);
        let cap = self.wall_cap_s;
        let start = self.start;
        std::thread::scope(|s| {
            for _ in 0..self.threads.min(nchunks.max(1)) {
                s.spawn(|| {
                    let mut mine: Vec<(usize, Local)> = Vec::new();
                    loop {
                        let c = next.fetch_add(1, Ordering::Relaxed);
                        if c >= nchunks {
                            break;
                        }
                        if start.elapsed().as_secs_f64() > cap {
                            capped.store(true, Ordering::Relaxed);
                            break;
                        }
                        let mut l = Local::default();
                        f(c, &mut l);
                        // compact: merge consecutive chunk results of this thread lazily
                        mine.push((c, l));
                        if mine.len() >= 64 {
                            let mut g = results.lock().unwrap();
                            g.append(&mut mine);
                        }
                    }
                    let mut g = results.lock().unwrap();
                    g.append(&mut mine);
                });
            }
        });
        let mut rs = results.into_inner().unwrap();
        rs.sort_by_key(|x| x.0);
        let mut ph_trans = 0u64;
        let mut ph_viol = 0u64;
        for (_, l) in rs {
            ph_trans += l.transitions;
            ph_viol += l.nviol;
            self.transitions += l.transitions;
            self.skipped += l.skipped;
            self.nviol += l.nviol;
            self.digest = mix(self.digest ^ l.digest);
            for v in l.viols {
                self.viols.push(v);
            }
            for (k, n) in l.known_hits {
                *self.known_hits.entry(k).or_insert(0) += n;
            }
            for (k, (r, s)) in l.worst {
                match self.worst.get_mut(&k) {
                    Some(e) => {
                        if r > e.0 {
                            *e = (r, s);
                        }
                    }
                    None => {
                        self.worst.insert(k, (r, s));
                    }
                }
            }
            for (k, n) in l.counters {
                *self.counters.entry(k).or_insert(0) += n;
            }
            for s in l.samples {
                if self.samples.len() < 40 {
                    self.samples.push(s);
                }
            }
        }
        // history violations first (they carry the whole call sequence and replay faithfully), then by enumeration index
        self.viols.sort_by_key(|v| (!v.call.starts_with("hist"), v.index));
        {
            let mut seen = std::collections::HashSet::new();
            self.viols.retain(|v| seen.insert((v.call.clone(), v.clause.clone(), v.args.clone())));
        }
        self.viols.truncate(self.max_viols_kept);
        self.states += states;
        if capped.load(Ordering::Relaxed) {
            self.capped = true;
            self.exhaustive = false;
            self.notes.push(format!("wall cap of {} s hit in phase {}", cap, phase));
        }
        self.phases.push(json!({"phase": phase, "chunks": nchunks, "states": states, "transitions": ph_trans, "violations": ph_viol, "wall_s": t0.elapsed().as_secs_f64()}));
        eprintln!(
            "[{} {}] phase {:<28} states {:>12} transitions {:>14} viol {:>8} {:.2}s",
            self.property,
            self.tier,
            phase,
            states,
            ph_trans,
            ph_viol,
            t0.elapsed().as_secs_f64()
        );
    }

    /// Sequential convenience wrapper for small phases.
    pub fn seq<F>(&mut self, phase: &str, states: u64, f: F)
    where
        F: Fn(&mut Local) + Sync,
    {
        self.par(phase, 1, states, |_, l| f(l));
    }

    pub fn add_sample(&mut self, v: Value) {
        if self.samples.len() < 60 {
            self.samples.push(v);
        }
    }

    /// Write replay files, evidence; print VIOLATION / KNOWN-FINDING lines; return exit code.
    pub fn finish(mut self, evidence_path: &str, replay_dir: &str, level_rule: &str, assumptions: &[&str], extra: Value) -> i32 {
        let wall = self.start.elapsed().as_secs_f64();
        // known findings
        for (i, k) in self.known.iter().enumerate() {
            if let Some(n) = self.known_hits.get(&i) {
                println!(
                    "KNOWN-FINDING: property={} call={} clause={} region={} observed={} matching_inputs={} -- {}",
                    k.property, k.call, k.clause, k.region, k.sig, n, k.description
                );
            } else {
                self.notes.push(format!("open known finding not reproduced by this run: call={} region={} observed={}", k.call, k.region, k.sig));
            }
        }
        let mut replay_paths = vec![];
        // (when a history violation exists the library has hidden state, and a violation recorded by an ordinary phase -
        // one call, no history - may not reproduce in isolation: the history replays were sorted first)
        if !self.viols.is_empty() {
            let dir = format!("{}/{}", replay_dir, self.property);
            let _ = std::fs::create_dir_all(&dir);
            for (i, v) in self.viols.iter().enumerate() {
                let p = format!("{}/{}_{}.json", dir, self.tier, i);
                let j = json!({
                    "property": self.property, "clause": v.clause, "call": v.call, "args": v.args,
                    "observed": v.observed, "expected": v.expected, "signature": v.sig, "region": v.region,
                    "enumeration_index": v.index, "extra": v.extra, "tier": self.tier,
                });
                std::fs::write(&p, serde_json::to_string_pretty(&j).unwrap()).expect("write replay");
                replay_paths.push(p);
            }
        }
        let worst: BTreeMap<String, Value> = self.worst.iter().map(|(k, (r, s))| (k.clone(), json!({"ratio_observed_over_tolerance": r, "at": s}))).collect();
        if self.samples.is_empty() {
            self.samples.push(json!("(no sample recorded)"));
        }
        let mut cov = json!({
            "states": self.states,
            "transitions": self.transitions,
            "traces_validated_against_impl": self.transitions,
            "samples": self.samples,
            "exhaustive": self.exhaustive && !self.capped,
            "evaluations": self.transitions,
            "distinct_nontrivial": self.states,
            "rule": level_rule,
            "skipped_out_of_claimed_range": self.skipped,
            "phases": self.phases,
            "worst_ratio_per_clause": worst,
            "counters": self.counters,
            "known_finding_matches": self.known_hits.iter().map(|(i,n)| json!({"call": self.known[*i].call, "region": self.known[*i].region, "observed": self.known[*i].sig, "matching_inputs": n})).collect::<Vec<_>>(),
            "violating_inputs": self.nviol,
            "replay_files": replay_paths,
            "notes": self.notes,
            "threads": self.threads,
        });
        if let (Some(c), Some(e)) = (cov.as_object_mut(), extra.as_object()) {
            for (k, v) in e {
                c.insert(k.clone(), v.clone());
            }
        }
        let ev = json!({
            "property_id": self.property,
            "tier": self.tier,
            "seed": self.seed,
            "level": "model_checking",
            "coverage": cov,
            "assumptions": assumptions,
            "wall_s": wall,
            "violations": self.nviol,
        });
        if let Some(parent) = std::path::Path::new(evidence_path).parent() {
            let _ = std::fs::create_dir_all(parent);
        }
        std::fs::write(evidence_path, serde_json::to_string_pretty(&ev).unwrap()).expect("write evidence");
        eprintln!(
            "[{} {}] states={} transitions={} violations={} known={} wall={:.1}s exhaustive={}",
            self.property,
            self.tier,
            self.states,
            self.transitions,
            self.nviol,
            self.known_hits.values().sum::<u64>(),
            wall,
            self.exhaustive && !self.capped
        );
        for (k, n) in self.counters.iter().filter(|(k, _)| k.starts_with("VIOLATION-KIND")) {
            eprintln!("  {} : {} inputs", k, n);
        }
        if self.nviol > 0 {
            // History violations found while other histories ran concurrently may owe their hidden state to another thread
            // (process-wide state): re-execute the first few in a FRESH PROCESS each and report the first one that
            // reproduces there, so that the replay named on the VIOLATION line is faithful.
            if self.viols.first().map(|v| v.call.starts_with("hist")).unwrap_or(false) {
                if let Ok(exe) = std::env::current_exe() {
                    let nh = self.viols.iter().take_while(|v| v.call.starts_with("hist")).count().min(16).min(replay_paths.len());
                    let mut faithful = None;
                    for i in 0..nh {
                        let st = std::process::Command::new(&exe).arg("replay").arg(&replay_paths[i]).stdout(std::process::Stdio::null()).stderr(std::process::Stdio::null()).status();
                        if let Ok(st) = st {
                            if st.code() == Some(1) {
                                faithful = Some(i);
                                break;
                            }
                        }
                    }
                    match faithful {
                        Some(i) => {
                            eprintln!("  history replay {} reproduces in a fresh process ({} tried)", replay_paths[i], i + 1);
                            replay_paths.swap(0, i);
                            self.viols.swap(0, i);
                        }
                        None => eprintln!("  note: none of the first {} history violations reproduces in a fresh process (state set by concurrent histories); the ordinary violations remain", nh),
                    }
                }
            }
            println!("VIOLATION property={} replay={}", self.property, replay_paths.first().cloned().unwrap_or_default());
            for v in self.viols.iter().take(3) {
                eprintln!("  first violations: clause={} call={} args={:?}\n     observed={}\n     expected={}", v.clause, v.call, v.args, v.observed, v.expected);
            }
            return 1;
        }
        if self.capped {
            eprintln!("MACHINERY: wall-clock cap hit; exploration incomplete (not a verdict)");
            return 2;
        }
        0
    }
}

// ---------------------------------------------------------------------------------------------
// panic capture

thread_local! {
    static LAST_PANIC: std::cell::RefCell<String> = std::cell::RefCell::new(String::new());
}

pub fn install_silent_panic_hook() {
    std::panic::set_hook(Box::new(|info| {
        let msg = if let Some(s) = info.payload().downcast_ref::<&str>() {
            s.to_string()
        } else if let Some(s) = info.payload().downcast_ref::<String>() {
            s.clone()
        } else {
            "panic".to_string()
        };
        let loc = info.location().map(|l| format!("{}:{}", l.file(), l.line())).unwrap_or_default();
        // panics inside the harness itself (not inside an api() call) must be loud
        let quiet = IN_API.with(|c| c.get());
        if !quiet {
            eprintln!("MACHINERY PANIC at {}: {}", loc, msg);
        }
        LAST_PANIC.with(|p| *p.borrow_mut() = format!("{} ({})", msg, loc));
    }));
}

thread_local! {
    static IN_API: std::cell::Cell<bool> = std::cell::Cell::new(false);
}

/// Execute one call into the crate under test; a panic becomes Err(message).
#[inline]
pub fn api<T>(f: impl FnOnce() -> T) -> Result<T, String> {
    IN_API.with(|c| c.set(true));
    let r = std::panic::catch_unwind(std::panic::AssertUnwindSafe(f));
    IN_API.with(|c| c.set(false));
    match r {
        Ok(v) => Ok(v),
        Err(_) => Err(LAST_PANIC.with(|p| p.borrow().clone())),
    }
}

pub static GLOBAL_CALLS: AtomicU64 = AtomicU64::new(0);
