//! Dumps oracle computations as JSON lines for cross-validation by /verif/oracle_selftest/validate.py
//! (Python fractions / mpmath).  This validates the measuring instrument; it decides no property.
use std::io::Write;
use tfref::alpha::{gen_fracs, mk_f64, run_bounded, weyl_fracs};
use tfref::bf::{Bf, Dir, Iv};
use tfref::big::Dy;
use tfref::rf;

fn dd_list() -> Vec<[f64; 2]> {
    let mut v = vec![];
    let mut fr = run_bounded(52, 2);
    fr.truncate(40);
    fr.extend(gen_fracs(6));
    fr.extend(weyl_fracs(10, 77));
    for (i, &f) in fr.iter().enumerate() {
        for e in [-1074i32, -1022, -600, -53, -1, 0, 1, 52, 600, 1023] {
            let hi = if e == -1074 { f64::from_bits((f >> 3).max(1)) } else { mk_f64(i % 2 == 1, e, f).unwrap() };
            v.push([hi, 0.0]);
            for g in [0, 1, 7, 53, 200] {
                if let Some(lo) = tfref::alpha::mk_f64_any(i % 3 == 0, e - 53 - g, fr[(i * 7 + 3) % fr.len()]) {
                    if tfref::big::dd_valid_fast(hi, lo) {
                        v.push([hi, lo]);
                    }
                }
            }
        }
    }
    v
}

pub fn run(out_dir: &str) -> i32 {
    std::fs::create_dir_all(out_dir).expect("mkdir");
    // ------------------------------------------------------------ exact layer
    let mut f = std::io::BufWriter::new(std::fs::File::create(format!("{}/big.jsonl", out_dir)).unwrap());
    let dds = dd_list();
    let n = dds.len();
    let mut cnt = 0;
    for i in 0..n {
        let a = dds[i];
        let b = dds[(i * 37 + 11) % n];
        let c = dds[(i * 101 + 5) % n];
        let da = Dy::from_dd(a[0], a[1]);
        let db = Dy::from_dd(b[0], b[1]);
        let dc = Dy::from_f64(c[0]);
        let sum = da.add(&db);
        let dif = da.sub(&db);
        let (rn, ex) = sum.to_f64_rn();
        let (rn2, _) = dif.to_f64_rn();
        writeln!(
            f,
            "{{\"a\":[\"{:016x}\",\"{:016x}\"],\"b\":[\"{:016x}\",\"{:016x}\"],\"c\":\"{:016x}\",\"add\":\"{}\",\"sub\":\"{}\",\"rn_add\":\"{:016x}\",\"rn_add_exact\":{},\"rn_sub\":\"{:016x}\",\"cmp\":{},\"msb\":{},\"sig\":{}}}",
            a[0].to_bits(),
            a[1].to_bits(),
            b[0].to_bits(),
            b[1].to_bits(),
            c[0].to_bits(),
            sum.to_hex(),
            dif.to_hex(),
            rn.to_bits(),
            ex,
            rn2.to_bits(),
            da.cmp(&db) as i32,
            da.msb().unwrap_or(0),
            da.sig_bits()
        )
        .unwrap();
        // products only where the window fits comfortably
        let ea = a[0].abs().log2();
        let eb = b[0].abs().log2();
        if ea.abs() < 700.0 && eb.abs() < 700.0 {
            let pr = da.mul(&db).mul(&dc);
            let (rp, _) = da.mul(&db).to_f64_rn();
            writeln!(f, "{{\"a\":[\"{:016x}\",\"{:016x}\"],\"b\":[\"{:016x}\",\"{:016x}\"],\"c\":\"{:016x}\",\"mul3\":\"{}\",\"rn_mul\":\"{:016x}\"}}", a[0].to_bits(), a[1].to_bits(), b[0].to_bits(), b[1].to_bits(), c[0].to_bits(), pr.to_hex(), rp.to_bits()).unwrap();
        }
        if ea.abs() < 300.0 {
            writeln!(
                f,
                "{{\"a\":[\"{:016x}\",\"{:016x}\"],\"floor\":\"{}\",\"ceil\":\"{}\",\"trunc\":\"{}\",\"round\":\"{}\",\"fract\":\"{}\"}}",
                a[0].to_bits(),
                a[1].to_bits(),
                da.floor().to_hex(),
                da.ceil().to_hex(),
                da.trunc().to_hex(),
                da.round_half_away().to_hex(),
                da.fract().to_hex()
            )
            .unwrap();
            if !db.is_zero() && (ea - eb) < 95.0 && eb.abs() < 300.0 {
                let (q, r) = da.div_trunc(&db, 100);
                writeln!(f, "{{\"a\":[\"{:016x}\",\"{:016x}\"],\"b\":[\"{:016x}\",\"{:016x}\"],\"divq\":\"{}\",\"divr\":\"{}\"}}", a[0].to_bits(), a[1].to_bits(), b[0].to_bits(), b[1].to_bits(), q.to_hex(), r.to_hex()).unwrap();
            }
        }
        cnt += 1;
    }
    // ------------------------------------------------------------ Bf division / sqrt with directed rounding
    let mut f = std::io::BufWriter::new(std::fs::File::create(format!("{}/bf.jsonl", out_dir)).unwrap());
    for i in 0..n {
        let a = Bf::from_dd(dds[i][0], dds[i][1]);
        let b = Bf::from_dd(dds[(i * 13 + 7) % n][0], dds[(i * 13 + 7) % n][1]);
        if b.is_zero() || a.is_zero() {
            continue;
        }
        let big = a.mul_exact(&b).mul_exact(&a).add_exact(&Bf::from_i64(i as i64 + 1));
        for p in [53u64, 200, 333] {
            let qd = big.div_r(&b, p, Dir::Down);
            let qu = big.div_r(&b, p, Dir::Up);
            let sd = big.abs().sqrt_r(p, Dir::Down);
            let su = big.abs().sqrt_r(p, Dir::Up);
            writeln!(f, "{{\"p\":{},\"x\":\"{}\",\"y\":\"{}\",\"div_dn\":\"{}\",\"div_up\":\"{}\",\"sqrt_dn\":\"{}\",\"sqrt_up\":\"{}\"}}", p, big.to_hex(), b.to_hex(), qd.to_hex(), qu.to_hex(), sd.to_hex(), su.to_hex()).unwrap();
        }
    }
    // ------------------------------------------------------------ reference functions
    let mut f = std::io::BufWriter::new(std::fs::File::create(format!("{}/rf.jsonl", out_dir)).unwrap());
    let mut emit = |name: &str, x: &Bf, y: Option<&Bf>, p: u64, v: &Iv| {
        writeln!(f, "{{\"f\":\"{}\",\"p\":{},\"x\":\"{}\",\"y\":\"{}\",\"lo\":\"{}\",\"hi\":\"{}\"}}", name, p, x.to_hex(), y.map(|b| b.to_hex()).unwrap_or_default(), v.lo.to_hex(), v.hi.to_hex()).unwrap();
    };
    let bf = |w: [f64; 2]| Bf::from_dd(w[0], w[1]);
    let w = weyl_fracs(12, 5);
    for p in [160u64, 256] {
        let z = Bf::zero();
        emit("pi", &z, None, p, &rf::pi(p));
        emit("ln2", &z, None, p, &rf::ln2(p));
        emit("ln10", &z, None, p, &rf::ln10(p));
        // generic arguments: m * 2^e
        let mut xs: Vec<Bf> = vec![];
        for (i, &fr) in w.iter().enumerate() {
            for e in [-1000, -300, -60, -30, -10, -3, -1, 0, 1, 3, 6, 9] {
                let hi = mk_f64(i % 2 == 0, e, fr).unwrap();
                let lo = hi * 2f64.powi(-54) * (0.3 + (i as f64) * 0.05);
                xs.push(bf(if tfref::big::dd_valid_fast(hi, lo) { [hi, lo] } else { [hi, 0.0] }));
            }
        }
        for x in &xs {
            let xa = x.abs();
            let l2 = x.approx_log2();
            if l2 < 9.4 {
                emit("exp", x, None, p, &rf::exp_pt(x, p));
                emit("expm1", x, None, p, &rf::expm1_pt(x, p));
                emit("sinh", x, None, p, &rf::sinh_pt(x, p));
                emit("cosh", x, None, p, &rf::cosh_pt(x, p));
                emit("tanh", x, None, p, &rf::tanh_pt(x, p));
                emit("exp2", x, None, p, &rf::exp2_pt(x, p));
            }
            emit("ln", &xa, None, p, &rf::ln_pt(&xa, p));
            emit("log2", &xa, None, p, &rf::log2_pt(&xa, p));
            emit("log10", &xa, None, p, &rf::log10_pt(&xa, p));
            emit("log1p", &xa, None, p, &rf::log1p_pt(&xa, p));
            if l2 < 0.0 {
                emit("log1p", x, None, p, &rf::log1p_pt(x, p));
                emit("asin", x, None, p, &rf::asin_pt(x, p));
                emit("acos", x, None, p, &rf::acos_pt(x, p));
                emit("atanh", x, None, p, &rf::atanh_pt(x, p));
            }
            let (s, c) = rf::sincos_pt(x, p);
            emit("sin", x, None, p, &s);
            emit("cos", x, None, p, &c);
            emit("tan", x, None, p, &rf::tan_pt(x, p));
            emit("atan", x, None, p, &rf::atan_pt(x, p));
            emit("asinh", x, None, p, &rf::asinh_pt(x, p));
            emit("sqrt", &xa, None, p, &rf::sqrt_pt(&xa, p));
            let x1 = xa.add_exact(&Bf::from_i64(1));
            emit("acosh", &x1, None, p, &rf::acosh_pt(&x1, p));
        }
        // near-singular arguments
        for j in [1i64, 2, 10, 30, 52, 53, 60, 100, 106, 300, 900] {
            let t = Bf::pow2(-j);
            let one = Bf::from_i64(1);
            for x in [one.add_exact(&t), one.sub_exact(&t)] {
                emit("ln", &x, None, p, &rf::ln_pt(&x, p));
                emit("log2", &x, None, p, &rf::log2_pt(&x, p));
                if x.cmp(&one) != core::cmp::Ordering::Less {
                    emit("acosh", &x, None, p, &rf::acosh_pt(&x, p));
                } else {
                    emit("asin", &x, None, p, &rf::asin_pt(&x, p));
                    emit("acos", &x, None, p, &rf::acos_pt(&x, p));
                    emit("atanh", &x, None, p, &rf::atanh_pt(&x, p));
                    emit("asin", &x.neg(), None, p, &rf::asin_pt(&x.neg(), p));
                    emit("acos", &x.neg(), None, p, &rf::acos_pt(&x.neg(), p));
                    emit("log1p", &x.neg(), None, p, &rf::log1p_pt(&x.neg(), p));
                }
            }
            for x in [t.clone(), t.neg()] {
                emit("expm1", &x, None, p, &rf::expm1_pt(&x, p));
                emit("log1p", &x, None, p, &rf::log1p_pt(&x, p));
                emit("sinh", &x, None, p, &rf::sinh_pt(&x, p));
                emit("tanh", &x, None, p, &rf::tanh_pt(&x, p));
                emit("asinh", &x, None, p, &rf::asinh_pt(&x, p));
                emit("atanh", &x, None, p, &rf::atanh_pt(&x, p));
                emit("atan", &x, None, p, &rf::atan_pt(&x, p));
                let (s, c) = rf::sincos_pt(&x, p);
                emit("sin", &x, None, p, &s);
                emit("cos", &x, None, p, &c);
            }
        }
        for x in [1.0f64, -1.0, 0.5, -0.5] {
            let b = Bf::from_f64(x);
            emit("asin", &b, None, p, &rf::asin_pt(&b, p));
            emit("acos", &b, None, p, &rf::acos_pt(&b, p));
        }
        // double-doubles nearest to multiples of pi/2 (worst cases of the argument reduction)
        let hp = rf::pi(400).mul_pow2(-1);
        for k in [1i64, 2, 3, 4, 5, 7, 100, 101, 12345, 65537, 333333, 667543, 1000001] {
            let v = hp.mul(&Iv::from_i64(k), 400);
            let d = v.lo.to_dy();
            if let Some((h, l)) = d.to_dd_rn() {
                for x in [bf([h, l]), bf([h, 0.0]), bf([-h, -l])] {
                    let (s, c) = rf::sincos_pt(&x, p);
                    emit("sin", &x, None, p, &s);
                    emit("cos", &x, None, p, &c);
                    emit("tan", &x, None, p, &rf::tan_pt(&x, p));
                }
            }
        }
        for t in [60i64, 30, 10, 1000] {
            let x = Bf::pow2(t).add_exact(&Bf::from_i64(3));
            emit("atan", &x, None, p, &rf::atan_pt(&x, p));
            emit("atan", &x.neg(), None, p, &rf::atan_pt(&x.neg(), p));
            emit("asinh", &x.neg(), None, p, &rf::asinh_pt(&x.neg(), p));
            emit("acosh", &x, None, p, &rf::acosh_pt(&x, p));
            emit("ln", &x, None, p, &rf::ln_pt(&x, p));
        }
        for x in [709.5f64, -745.0, 600.25, -600.25, 0.25, 88.0] {
            let b = Bf::from_f64(x);
            emit("exp", &b, None, p, &rf::exp_pt(&b, p));
            emit("sinh", &b, None, p, &rf::sinh_pt(&b, p));
            emit("cosh", &b, None, p, &rf::cosh_pt(&b, p));
        }
        // powers
        for (i, &fr) in w.iter().enumerate() {
            let x = Bf::from_f64(mk_f64(false, (i as i32 % 7) - 3, fr).unwrap());
            let y = Bf::from_f64(mk_f64(i % 2 == 1, (i as i32 % 5) - 2, w[(i + 5) % w.len()]).unwrap());
            emit("pow", &x, Some(&y), p, &rf::pow_pt(&x, &y, p));
            for n in [2i64, 3, -7, 100, -1000] {
                emit("powi", &x, Some(&Bf::from_i64(n)), p, &rf::powi_pt(&x, n, p));
            }
            let near1 = Bf::from_i64(1).add_exact(&Bf::from_f64(fr as f64).mul_pow2(-52 - 30));
            for n in [i32::MAX as i64, i32::MIN as i64, 1 << 20] {
                emit("powi", &near1, Some(&Bf::from_i64(n)), p, &rf::powi_pt(&near1, n, p));
            }
        }
        for pair in [(1.0f64, 2.0f64), (-3.0, 1.0), (2.0, -5.0), (-1.0, -1e-5), (1e10, 1.0), (0.0, -2.0), (3.0, 0.0), (-0.5, 0.0)] {
            let y = Iv::point(&Bf::from_f64(pair.0));
            let x = Iv::point(&Bf::from_f64(pair.1));
            emit("atan2", &Bf::from_f64(pair.0), Some(&Bf::from_f64(pair.1)), p, &rf::atan2(&y, &x, p));
        }
    }
    eprintln!("selftest: wrote {} exact-layer cases, bf and rf dumps to {}", cnt, out_dir);
    0
}
