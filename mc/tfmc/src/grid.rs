//! Single-operand double-double grids used by the unary-function properties.
use tfref::alpha::{mk_f64, mk_f64_any};
use tfref::big::dd_valid_fast;

/// For every high word (exps x fracs x both signs): zero low words, low words placed relative to
/// the high word (gap, fraction, both signs) and low words with fixed absolute values; only
/// valid pairs are kept; order simplest-first; deduplicated.
pub fn dd_grid(exps: &[i32], hi_fracs: &[u64], gaps: &[i32], lo_fracs: &[u64], abs_los: &[f64]) -> Vec<[f64; 2]> {
    let mut out: Vec<[f64; 2]> = Vec::new();
    for &e in exps {
        for &hf in hi_fracs {
            for hs in [false, true] {
                let hi = match mk_f64(hs, e, hf) {
                    Some(h) => h,
                    None => continue,
                };
                push_los(&mut out, hi, e, gaps, lo_fracs, abs_los);
            }
        }
    }
    dedup(&mut out);
    out
}

pub fn push_los(out: &mut Vec<[f64; 2]>, hi: f64, e: i32, gaps: &[i32], lo_fracs: &[u64], abs_los: &[f64]) {
    out.push([hi, 0.0]);
    out.push([hi, -0.0]);
    for &g in gaps {
        for &lf in lo_fracs {
            for ls in [false, true] {
                if let Some(lo) = mk_f64_any(ls, e - 53 - g, lf) {
                    if lo != 0.0 && dd_valid_fast(hi, lo) {
                        out.push([hi, lo]);
                    }
                }
            }
        }
    }
    for &lo in abs_los {
        for s in [1.0, -1.0] {
            let l = s * lo;
            if l != 0.0 && dd_valid_fast(hi, l) {
                out.push([hi, l]);
            }
        }
    }
}

pub fn dedup(out: &mut Vec<[f64; 2]>) {
    let mut seen = std::collections::HashSet::new();
    out.retain(|v| seen.insert((v[0].to_bits(), v[1].to_bits())));
}

/// exponent of a finite non-zero f64 (floor(log2|x|)), subnormals included
pub fn exp_of(x: f64) -> i32 {
    let b = x.to_bits();
    let ex = ((b >> 52) & 0x7ff) as i32;
    if ex != 0 {
        ex - 1023
    } else {
        let fr = b & ((1u64 << 52) - 1);
        -1074 + (63 - fr.leading_zeros() as i32)
    }
}

/// low-word variants for an arbitrary finite high word
pub fn with_los(hi: f64, gaps: &[i32], lo_fracs: &[u64], abs_los: &[f64]) -> Vec<[f64; 2]> {
    let mut out = Vec::new();
    if hi == 0.0 {
        out.push([hi, 0.0]);
        out.push([hi, -0.0]);
        return out;
    }
    push_los(&mut out, hi, exp_of(hi), gaps, lo_fracs, abs_los);
    dedup(&mut out);
    out
}
