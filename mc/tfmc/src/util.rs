//! Small helpers: hex-float formatting, argument (de)coding.

/// C99 "%a"-style rendering of an f64 (exact, round-trippable by eye).
pub fn hexf(x: f64) -> String {
    if x.is_nan() {
        return "NaN".into();
    }
    if x.is_infinite() {
        return if x > 0.0 { "inf".into() } else { "-inf".into() };
    }
    let b = x.to_bits();
    let s = if b >> 63 != 0 { "-" } else { "" };
    let ex = ((b >> 52) & 0x7ff) as i32;
    let fr = b & ((1u64 << 52) - 1);
    if ex == 0 && fr == 0 {
        return format!("{}0x0p+0", s);
    }
    let (lead, e) = if ex == 0 { (0, -1022) } else { (1, ex - 1023) };
    let mut f = format!("{:013x}", fr);
    while f.ends_with('0') && f.len() > 1 {
        f.pop();
    }
    if fr == 0 {
        format!("{}0x{}p{:+}", s, lead, e)
    } else {
        format!("{}0x{}.{}p{:+}", s, lead, f, e)
    }
}

pub fn show_dd(w: [f64; 2]) -> String {
    format!("({}, {})", hexf(w[0]), hexf(w[1]))
}

pub fn parse_hex_u64(s: &str) -> u64 {
    let t = s.trim().trim_start_matches("0x");
    u64::from_str_radix(t, 16).expect("bad hex word in replay file")
}

#[inline]
pub fn next_up(x: f64) -> f64 {
    // finite, non-NaN inputs only
    let b = x.to_bits();
    if x == 0.0 {
        return f64::from_bits(1);
    }
    if b >> 63 == 0 {
        f64::from_bits(b + 1)
    } else {
        f64::from_bits(b - 1)
    }
}
#[inline]
pub fn next_down(x: f64) -> f64 {
    -next_up(-x)
}
/// step `k` ulps (k may be negative)
pub fn step(x: f64, k: i32) -> f64 {
    let mut v = x;
    if k >= 0 {
        for _ in 0..k {
            v = next_up(v);
        }
    } else {
        for _ in 0..(-k) {
            v = next_down(v);
        }
    }
    v
}
