//! tfmc — bounded exhaustive exploration of the real twofloat crate against an exact
//! reference model.  Usage:
//!   tfmc run <PROPERTY> --tier quick|thorough --evidence <file> --replays <dir> --known <file>
//!   tfmc replay <replay.json>
mod api;
mod fx;
mod grid;
mod hist;
mod organic;
mod pairs;
mod props;
mod run;
mod selftest;
mod util;

use run::{Runner, Verdict};

fn arg_after(args: &[String], key: &str, default: &str) -> String {
    args.iter().position(|a| a == key).and_then(|i| args.get(i + 1)).cloned().unwrap_or_else(|| default.to_string())
}

fn main() {
    run::install_silent_panic_hook();
    let args: Vec<String> = std::env::args().collect();
    if args.len() < 2 {
        eprintln!("usage: tfmc run <ID> --tier quick|thorough | tfmc replay <file>");
        std::process::exit(2);
    }
    match args[1].as_str() {
        "run" => {
            let id = args[2].clone();
            let tier = arg_after(&args, "--tier", "quick");
            let evidence = arg_after(&args, "--evidence", &format!("/verif/evidence/{}.json", id));
            let replays = arg_after(&args, "--replays", "/verif/replays");
            let known = arg_after(&args, "--known", "/verif/known_findings.json");
            let mut r = Runner::new(&id, &tier, &known);
            let code = match props::registry(&id) {
                Some(e) => {
                    (e.run)(&mut r);
                    let mut extra = serde_json::json!({});
                    let xp = arg_after(&args, "--extra-json", "");
                    if !xp.is_empty() {
                        if let Ok(t) = std::fs::read_to_string(&xp) {
                            if let Ok(v) = serde_json::from_str::<serde_json::Value>(&t) {
                                // fold the companion run's coverage into this evidence file
                                let c = &v["coverage"];
                                r.transitions += c["transitions"].as_u64().unwrap_or(0);
                                r.states += c["states"].as_u64().unwrap_or(0);
                                extra = serde_json::json!({"companion_run": {"what": arg_after(&args, "--extra-what", "companion run"), "transitions": c["transitions"], "states": c["states"], "violating_inputs": c["violating_inputs"], "phases": c["phases"], "notes": c["notes"], "wall_s": v["wall_s"]}});
                            }
                        }
                    }
                    r.finish(&evidence, &replays, e.rule, e.assumptions, extra)
                }
                None => {
                    eprintln!("unknown property {}", id);
                    2
                }
            };
            std::process::exit(code);
        }
        "selftest" => {
            let out = arg_after(&args, "--out", "/verif/target/selftest");
            std::process::exit(selftest::run(&out));
        }
        "replay" => {
            let txt = std::fs::read_to_string(&args[2]).expect("cannot read replay file");
            let v: serde_json::Value = serde_json::from_str(&txt).expect("replay file: invalid JSON");
            let prop = v["property"].as_str().unwrap_or("");
            let call = v["call"].as_str().unwrap_or("");
            let clause = v["clause"].as_str().unwrap_or("");
            let a: Vec<u64> = v["args"].as_array().map(|a| a.iter().map(|x| util::parse_hex_u64(x.as_str().unwrap())).collect()).unwrap_or_default();
            let verdict = match props::registry(prop) {
                Some(e) => (e.replay)(call, clause, &a),
                None => {
                    eprintln!("unknown property {}", prop);
                    std::process::exit(2);
                }
            };
            match verdict {
                Verdict::Pass => {
                    println!("REPLAY property={} call={} -> PASS on the current tree", prop, call);
                    std::process::exit(0);
                }
                Verdict::Skip => {
                    println!("REPLAY property={} call={} -> outside the claimed range", prop, call);
                    std::process::exit(0);
                }
                Verdict::Fail(f) => {
                    println!("REPLAY property={} clause={} call={} args={:?}\n  observed: {}\n  expected: {}", prop, f.clause, f.call, f.args, f.observed, f.expected);
                    println!("VIOLATION property={} replay={}", prop, args[2]);
                    std::process::exit(1);
                }
            }
        }
        _ => {
            eprintln!("unknown command");
            std::process::exit(2);
        }
    }
}
