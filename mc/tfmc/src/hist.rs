//! History exploration: every short SEQUENCE of API calls over a small call alphabet, each sequence on a
//! fresh thread (fresh thread-local state), with the property's own judge applied to the LAST call.
//!
//! The library is specified as a set of pure functions.  An implementation that keeps hidden state (a
//! memo of the last argument, a lazily filled table, a scratch buffer hoisted to a `static` or a
//! `thread_local!`) can return a result that depends on the calls made before — invisible to any
//! exploration that evaluates each operand tuple once.  Here the explored object is the call history:
//! state = the (hidden) state of the library after a prefix of calls, transition = one more API call,
//! oracle = the same per-call judge the property uses everywhere else.  A call that already fails in
//! isolation (empty history, fresh thread) is left to the ordinary phases; only failures that need a
//! non-empty history are reported here, with the whole sequence as the replayable artefact.
use crate::api::{st, Op};
use crate::run::{Local, Runner, Verdict};

#[derive(Clone, Copy, Debug)]
pub struct HCall {
    /// 0 = `api::Op` (code = index in Op::ALL), 1 = `st::ext` kind (conversions, comparisons, text, validity)
    pub kind: u8,
    pub code: u16,
    pub a: [f64; 2],
    pub b: [f64; 2],
}

impl HCall {
    pub fn op(op: Op, a: [f64; 2], b: [f64; 2]) -> HCall {
        HCall { kind: 0, code: Op::ALL.iter().position(|o| *o == op).unwrap() as u16, a, b }
    }
    pub fn ext(k: u8, a: [f64; 2], b: [f64; 2]) -> HCall {
        HCall { kind: 1, code: k as u16, a, b }
    }
    pub fn as_op(&self) -> Option<Op> {
        if self.kind == 0 {
            Some(Op::ALL[self.code as usize])
        } else {
            None
        }
    }
    /// perform the call, discarding the result (a panic is caught inside `st::call` / `st::ext`)
    pub fn exec(&self) {
        if self.kind == 0 {
            let _ = st::call(Op::ALL[self.code as usize], self.a, self.b);
        } else {
            let _ = st::ext(self.code as u8, self.a, self.b);
        }
    }
    pub fn describe(&self) -> String {
        let nm = if self.kind == 0 { Op::ALL[self.code as usize].name().to_string() } else { format!("ext#{}", self.code) };
        format!("{}({}, {})", nm, crate::util::show_dd(self.a), crate::util::show_dd(self.b))
    }
    fn encode(&self, out: &mut Vec<u64>) {
        out.push(((self.kind as u64) << 16) | self.code as u64);
        out.extend([self.a[0].to_bits(), self.a[1].to_bits(), self.b[0].to_bits(), self.b[1].to_bits()]);
    }
    fn decode(w: &[u64]) -> HCall {
        HCall { kind: (w[0] >> 16) as u8, code: (w[0] & 0xffff) as u16, a: [f64::from_bits(w[1]), f64::from_bits(w[2])], b: [f64::from_bits(w[3]), f64::from_bits(w[4])] }
    }
}

pub type Judge<'a> = &'a (dyn Fn(&HCall, Option<&mut Local>) -> Verdict + Sync);

pub type Exec<'a> = &'a (dyn Fn(&HCall) + Sync);

fn run_sequence(seq: &[HCall], judge: Judge, l: &mut Local) -> Verdict {
    run_sequence_with(seq, &|c: &HCall| c.exec(), judge, l)
}

fn run_sequence_with(seq: &[HCall], exec: Exec, judge: Judge, l: &mut Local) -> Verdict {
    // a fresh OS thread: thread-local state of the library starts empty; process-wide state does not (it is part of
    // the explored history: sequences of different groups run one after another and concurrently)
    std::thread::scope(|s| {
        s.spawn(|| {
            for c in &seq[..seq.len() - 1] {
                exec(c);
            }
            judge(&seq[seq.len() - 1], Some(l))
        })
        .join()
        .unwrap_or_else(|_| Verdict::fail("no_panic", "hist", &[], "the judge panicked".into(), "a verdict".into(), "panic"))
    })
}

fn wrap(v: Verdict, seq: &[HCall]) -> Verdict {
    match v {
        Verdict::Fail(b) => {
            let mut args = vec![seq.len() as u64];
            for c in seq {
                c.encode(&mut args);
            }
            let hist: Vec<String> = seq[..seq.len() - 1].iter().map(|c| c.describe()).collect();
            Verdict::fail(
                &format!("history: {}", b.clause),
                "hist",
                &args,
                format!("{} [{}] after the calls {} on the same thread (the same call passes on a fresh thread): {}", seq[seq.len() - 1].describe(), b.call, hist.join("; "), b.observed),
                b.expected.clone(),
                &b.sig,
            )
        }
        o => o,
    }
}

/// All sequences of length 2..=maxlen (with repetition) over each group's call alphabet.
pub fn explore(r: &mut Runner, name: &str, groups: &[Vec<HCall>], maxlen: usize, judge: Judge, base_index: u64) {
    explore_with(r, name, groups, maxlen, &|c: &HCall| c.exec(), judge, base_index)
}

/// as `explore`, with the way a prefix call is executed supplied by the caller (C11 executes it in both build configurations).
/// The thorough tier explores one call deeper (`maxlen + 1`).  Work is split by (alphabet, first call of the sequence).
pub fn explore_with(r: &mut Runner, name: &str, groups: &[Vec<HCall>], maxlen: usize, exec: Exec, judge: Judge, base_index: u64) {
    let maxlen = if r.quick() { maxlen } else { maxlen + 1 };
    let judged: Vec<usize> = groups.iter().map(|g| g.len()).collect();
    explore_core(r, name, groups, &judged, maxlen, exec, judge, base_index)
}

/// Cross-family histories: each alphabet = the property's own calls (the first `judged[g]` entries, the only ones the
/// judge is applied to) followed by FOREIGN calls — other public functions on the same operands — that may only occur as
/// prefix calls.  State shared between two different public functions (a cache filled by one and read by another, a
/// private helper with a memo) shows as a last call whose result depends on which foreign calls went before.
pub fn explore_mixed(r: &mut Runner, name: &str, own: &[Vec<HCall>], maxlen: usize, judge: Judge, base_index: u64) {
    let mut groups: Vec<Vec<HCall>> = vec![];
    let mut judged: Vec<usize> = vec![];
    // up to three alphabets: the second one (usually a two-word operand), the last one, and the first binary one
    let mut sel: Vec<usize> = vec![1usize.min(own.len() - 1), own.len() - 1];
    if let Some(i) = own.iter().position(|g| g[0].b[0] != 0.0) {
        sel.push(i);
    }
    sel.sort();
    sel.dedup();
    for g in sel.iter().map(|&i| &own[i]) {
        let mut all = g.clone();
        let a = g[0].a;
        let b = if g[0].b[0] != 0.0 { g[0].b } else { [a[0] * 0.75, a[1] * 0.75] };
        for &o in Op::ALL {
            let c = match o.arity() {
                1 if o != Op::from_f64 && o != Op::sin_cos => HCall::op(o, a, [0.0, 0.0]),
                2 if matches!(o, Op::add | Op::sub | Op::mul | Op::div | Op::rem | Op::hypot | Op::powf | Op::log | Op::atan2 | Op::div_euclid | Op::rem_euclid | Op::mul_assign | Op::div_assign | Op::powi) => HCall::op(o, a, if o == Op::powi { [5.0, 0.0] } else { b }),
                _ => continue,
            };
            let mut cs = vec![c];
            if o.arity() == 2 && o != Op::powi {
                cs.push(HCall::op(o, b, a)); // the other operand order
            }
            for c in cs {
                if !all.iter().any(|d| d.kind == c.kind && d.code == c.code && d.a[0].to_bits() == c.a[0].to_bits() && d.a[1].to_bits() == c.a[1].to_bits() && d.b[0].to_bits() == c.b[0].to_bits() && d.b[1].to_bits() == c.b[1].to_bits()) {
                    all.push(c);
                }
            }
        }
        all.push(HCall::op(Op::sin_cos, a, [0.0, 0.0]));
        for k in [4u8, 7, 10, 12, 13] {
            all.push(HCall::ext(k, a, b));
        }
        judged.push(g.len());
        groups.push(all);
    }
    let maxlen = if r.quick() { maxlen } else { maxlen + 1 }; // the thorough tier explores one call deeper
    explore_core(r, name, &groups, &judged, maxlen, &|c: &HCall| c.exec(), judge, base_index)
}

fn explore_core(r: &mut Runner, name: &str, groups: &[Vec<HCall>], judged: &[usize], maxlen: usize, exec: Exec, judge: Judge, base_index: u64) {
    let rec = r.recorder();
    let mut total = 0u64;
    for (g, &j) in groups.iter().zip(judged) {
        let n = g.len() as u64;
        for len in 2..=maxlen as u32 {
            total += n.pow(len - 1) * j as u64;
        }
    }
    let ng = groups.len();
    // work units: (group, first call)
    let units: Vec<(usize, usize)> = groups.iter().enumerate().flat_map(|(gi, g)| (0..g.len()).map(move |f| (gi, f))).collect();
    r.notes.push(format!("{}: {} call alphabets of {} calls on average ({} of them judged as last call); ALL sequences of length 2..={} over each alphabet that end in a judged call = {} histories, each on a fresh thread, the property's judge applied to the last call (calls that fail on an empty history are left to the other phases)", name, ng, groups.iter().map(|g| g.len()).sum::<usize>() / ng.max(1), judged.iter().sum::<usize>() / ng.max(1), maxlen, total));
    r.par(name, units.len(), total, |ui, l| {
        let (gi, first) = units[ui];
        let g = &groups[gi];
        let n = g.len();
        // isolated verdicts (empty history, fresh thread)
        let nj = judged[gi];
        let alone: Vec<bool> = g[..nj].iter().map(|c| run_sequence_with(&[*c], exec, judge, &mut Local::default()).is_fail()).collect();
        let mut before = 0u64; // sequences of shorter lengths (all first calls), for a stable index
        for len in 2..=maxlen {
            let tails = n.pow(len as u32 - 1);
            for t in 0..tails {
                let mut rem = t;
                let mut seq: Vec<HCall> = Vec::with_capacity(len);
                for _ in 1..len {
                    seq.push(g[rem % n]);
                    rem /= n;
                }
                seq.push(g[first]);
                seq.reverse();
                let last = t % n;
                if last >= nj {
                    continue;
                }
                let k = before + (first * tails + t) as u64 + 1;
                if alone[last] {
                    l.transitions += 1;
                    continue;
                }
                let v = run_sequence_with(&seq, exec, judge, l);
                let mut index = base_index + ((gi as u64) << 24) + k;
                if v.is_fail() {
                    // process-wide hidden state can be set by histories running concurrently on other threads: run the
                    // sequence once more and list the violations that reproduce first (they are the faithful replays)
                    if !run_sequence_with(&seq, exec, judge, &mut Local::default()).is_fail() {
                        index += 1u64 << 50;
                    }
                }
                rec.record(l, index, wrap(v, &seq));
            }
            before += (n.pow(len as u32)) as u64;
        }
    });
}

pub fn replay_with(args: &[u64], exec: Exec, judge: Judge) -> Verdict {
    let len = args[0] as usize;
    let seq: Vec<HCall> = (0..len).map(|i| HCall::decode(&args[1 + 5 * i..6 + 5 * i])).collect();
    let v = run_sequence_with(&seq, exec, judge, &mut Local::default());
    wrap(v, &seq)
}

pub fn replay(args: &[u64], judge: Judge) -> Verdict {
    let len = args[0] as usize;
    let seq: Vec<HCall> = (0..len).map(|i| HCall::decode(&args[1 + 5 * i..6 + 5 * i])).collect();
    let v = run_sequence(&seq, judge, &mut Local::default());
    wrap(v, &seq)
}

/// Operand variants that a mis-keyed cache confuses with x: x itself, -x, x with its low word negated / dropped,
/// 2x, and one unrelated value.
pub fn variants(x: [f64; 2], other: [f64; 2]) -> Vec<[f64; 2]> {
    let mut v = vec![x, [-x[0], -x[1]], [x[0], -x[1]], [x[0], 0.0], [2.0 * x[0], 2.0 * x[1]], other];
    v.retain(|w| w[0].is_finite() && tfref::big::dd_valid_fast(w[0], w[1]));
    let mut out: Vec<[f64; 2]> = vec![];
    for w in v {
        if !out.iter().any(|o| o[0].to_bits() == w[0].to_bits() && o[1].to_bits() == w[1].to_bits()) {
            out.push(w);
        }
    }
    out
}

/// One call alphabet per base operand: every op of `ops` applied to every variant of the base.
pub fn unary_groups(ops: &[Op], bases: &[[f64; 2]], other: [f64; 2]) -> Vec<Vec<HCall>> {
    bases.iter().map(|&x| variants(x, other).into_iter().flat_map(|v| ops.iter().map(move |&o| HCall::op(o, v, [0.0, 0.0]))).collect()).collect()
}

/// One call alphabet per operand pair (a, b): every op of `ops` on (a, b), (b, a), (a, -b), (hi(a), b), (a', b) with a' = a with its low word negated.
pub fn binary_groups(ops: &[Op], pairs: &[([f64; 2], [f64; 2])]) -> Vec<Vec<HCall>> {
    pairs
        .iter()
        .map(|&(a, b)| {
            let mut ps: Vec<([f64; 2], [f64; 2])> = vec![(a, b), (b, a), (a, [-b[0], -b[1]]), ([a[0], 0.0], b), ([a[0], -a[1]], b), (a, [b[0], 0.0])];
            ps.retain(|p| tfref::big::dd_valid_fast(p.0[0], p.0[1]) && tfref::big::dd_valid_fast(p.1[0], p.1[1]));
            let mut out: Vec<HCall> = vec![];
            for (x, y) in ps {
                for &o in ops {
                    if !out.iter().any(|c| c.code == HCall::op(o, x, y).code && c.a[0].to_bits() == x[0].to_bits() && c.a[1].to_bits() == x[1].to_bits() && c.b[0].to_bits() == y[0].to_bits() && c.b[1].to_bits() == y[1].to_bits()) {
                        out.push(HCall::op(o, x, y));
                    }
                }
            }
            out
        })
        .collect()
}
