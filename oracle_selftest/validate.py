#!/usr/bin/env python3
"""Cross-validates the Rust oracle (tfref) against Python fractions and mpmath.
Reads the dumps written by `tfmc selftest`.  Exit 0 iff every case agrees.
This validates the measuring instrument; it decides no property."""
import sys, json, struct, math
from fractions import Fraction

d = sys.argv[1] if len(sys.argv) > 1 else "/verif/target/selftest"

def f64(hexbits):
    return struct.unpack(">d", bytes.fromhex(hexbits))[0]
def fr64(hexbits):
    return Fraction(f64(hexbits))
def parse(s):
    """[-]0x<hex>p<exp>  ->  Fraction"""
    if s in ("0", "0x0p0"):
        return Fraction(0)
    neg = s.startswith("-")
    if neg: s = s[1:]
    m, e = s[2:].split("p")
    v = Fraction(int(m, 16)) * (Fraction(2) ** int(e))
    return -v if neg else v
def rn(fr):
    """correctly rounded float of a Fraction with IEEE overflow"""
    try:
        return float(fr)   # Python's Fraction -> float is correctly rounded (round-half-even)
    except OverflowError:
        return math.inf if fr > 0 else -math.inf

def flog2(fr):
    """floor(log2 |fr|) exactly"""
    fr = abs(fr)
    k = fr.numerator.bit_length() - fr.denominator.bit_length()
    if fr < Fraction(2) ** k:
        k -= 1
    assert Fraction(2) ** k <= fr < Fraction(2) ** (k + 1)
    return k

bad = 0
n = 0
# ---------------------------------------------------------------- exact layer
for line in open(d + "/big.jsonl"):
    j = json.loads(line); n += 1
    a = fr64(j["a"][0]) + fr64(j["a"][1])
    if "add" in j:
        b = fr64(j["b"][0]) + fr64(j["b"][1])
        ok = parse(j["add"]) == a + b and parse(j["sub"]) == a - b
        r = rn(a + b); got = f64(j["rn_add"])
        ok &= (r == got and math.copysign(1, r) == math.copysign(1, got)) or (r == 0 and got == 0)
        ok &= j["rn_add_exact"] == (Fraction(r) == a + b if math.isfinite(r) else False)
        r2 = rn(a - b); got2 = f64(j["rn_sub"])
        ok &= (r2 == got2)
        ok &= j["cmp"] == (a > b) - (a < b)
        if a != 0:
            ok &= j["msb"] == flog2(a)
    elif "mul3" in j:
        b = fr64(j["b"][0]) + fr64(j["b"][1]); c = fr64(j["c"])
        ok = parse(j["mul3"]) == a * b * c and rn(a * b) == f64(j["rn_mul"])
    elif "floor" in j:
        fl = Fraction(math.floor(a)); ce = Fraction(math.ceil(a)); tr = Fraction(math.trunc(a))
        rd = Fraction(math.floor(abs(a) + Fraction(1, 2))) * (1 if a >= 0 else -1)
        ok = parse(j["floor"]) == fl and parse(j["ceil"]) == ce and parse(j["trunc"]) == tr and parse(j["round"]) == rd and parse(j["fract"]) == a - tr
    elif "divq" in j:
        b = fr64(j["b"][0]) + fr64(j["b"][1])
        q = Fraction(math.trunc(a / b))
        ok = parse(j["divq"]) == q and parse(j["divr"]) == a - q * b
    if not ok:
        bad += 1
        if bad < 10: print("EXACT-LAYER MISMATCH", line[:300])

# ---------------------------------------------------------------- directed division / sqrt
def within_p_bits(v, p):
    if v == 0: return True
    num = abs(v.numerator); den = v.denominator
    # v = m * 2^e with m odd integer: bit length of m
    m = num
    while m % 2 == 0: m //= 2
    return m.bit_length() <= p and (den & (den - 1)) == 0
for line in open(d + "/bf.jsonl"):
    j = json.loads(line); n += 1
    x = parse(j["x"]); y = parse(j["y"]); p = j["p"]
    q = x / y
    dn = parse(j["div_dn"]); up = parse(j["div_up"])
    ok = dn <= q <= up and within_p_bits(dn, p) and within_p_bits(up, p)
    # tightness: up - dn at most one unit in the p-th place
    if q != 0:
        ulp = Fraction(2) ** (flog2(q) - p + 2)
        ok &= (up - dn) <= ulp
    sd = parse(j["sqrt_dn"]); su = parse(j["sqrt_up"])
    ax = abs(x)
    ok &= sd * sd <= ax <= su * su and sd >= 0 and within_p_bits(sd, p) and within_p_bits(su, p)
    if ax != 0:
        ok &= (su - sd) * (su - sd) <= ax * Fraction(2) ** (-2 * p + 4)
    if not ok:
        bad += 1
        if bad < 10: print("BF MISMATCH", line[:300])

# ---------------------------------------------------------------- reference functions vs mpmath
import mpmath as mp
mp.mp.prec = 1400
def mpf_of(fr):
    return mp.mpf(fr.numerator) / mp.mpf(fr.denominator)
funcs = {
    "exp": mp.exp, "expm1": mp.expm1, "sinh": mp.sinh, "cosh": mp.cosh, "tanh": mp.tanh,
    "exp2": lambda x: mp.power(2, x), "ln": mp.log, "log2": lambda x: mp.log(x) / mp.log(2), "log10": mp.log10,
    "log1p": mp.log1p, "asin": mp.asin, "acos": mp.acos, "atanh": mp.atanh, "sin": mp.sin, "cos": mp.cos, "tan": mp.tan,
    "atan": mp.atan, "asinh": mp.asinh, "sqrt": mp.sqrt, "acosh": mp.acosh,
}
worst = {}
for line in open(d + "/rf.jsonl"):
    j = json.loads(line); n += 1
    f = j["f"]; p = j["p"]
    lo = parse(j["lo"]); hi = parse(j["hi"])
    x = parse(j["x"])
    if f == "pi": v = mp.pi()
    elif f == "ln2": v = mp.log(2)
    elif f == "ln10": v = mp.log(10)
    elif f == "pow": v = mp.power(mpf_of(x), mpf_of(parse(j["y"])))
    elif f == "powi": v = mp.power(mpf_of(x), int(parse(j["y"])))
    elif f == "atan2": v = mp.atan2(mpf_of(x), mpf_of(parse(j["y"])))
    else:
        with mp.workprec(1400 + (2200 if f in ("log1p", "ln", "log2", "log10", "acosh", "atanh", "asin", "acos", "expm1") else 0)):
            v = funcs[f](mpf_of(x))
            v = +v
    if isinstance(v, mp.mpc):
        bad += 1; print("COMPLEX?", line[:200]); continue
    lo_m = mpf_of(lo); hi_m = mpf_of(hi)
    ok = lo_m <= v <= hi_m
    width = hi_m - lo_m
    if v != 0:
        rw = width / abs(v)
        # enclosure must be tight: relative width below 2^-(p-8)
        ok &= rw <= mp.mpf(2) ** (-(p - 8))
        if rw > 0:
            worst[f] = max(worst.get(f, -9999), float(mp.log(rw, 2)) + p)
    else:
        ok &= width == 0
    if not ok:
        bad += 1
        if bad < 20:
            print("RF MISMATCH", f, "p=", p, "x=", j["x"][:60], "inside:", bool(lo_m <= v <= hi_m), "relwidth log2:", (float(mp.log(width / abs(v), 2)) if v != 0 and width > 0 else None))

print("oracle self-test: %d cases, %d mismatches; worst enclosure width relative to 2^-p (log2): %s" % (n, bad, {k: round(v, 1) for k, v in sorted(worst.items())}))
sys.exit(1 if bad else 0)
