#!/bin/bash
# run every check at the given tier (default quick) on the current tree; print one line per check
TIER=${1:-quick}
cd /verif
for i in 01 02 03 04 05 06 07 08 09 10 11 12 13 14 15 16 17 18 19 20; do
  S=$(date +%s.%N)
  OUT=$(./check C$i --tier $TIER 2>/dev/null); RC=$?
  E=$(date +%s.%N)
  printf "C%s tier=%s exit=%d wall=%.1fs %s\n" $i $TIER $RC $(echo "$E - $S" | bc) "$(echo "$OUT" | grep -E '^(VIOLATION|KNOWN)' | cut -c1-80 | tr '\n' ' ')"
done
