#!/bin/bash
# usage: tools/confirm_seeded.sh <seeded dir, e.g. seeded/C16-r13> — confirm one seeded change in a fresh scratch worktree
# of /repo (outside /repo and /verif): the demo passes without the patch and fails with it; the full suite passes three
# times with it. Prints one result line; removes the worktree and its build output afterwards.
set -u
D=$(readlink -f "$1"); ID=$(basename "$D" | cut -c1-3)
W=$(mktemp -d /tmp/confirm_XXXXXX)/wt
git -C /repo worktree add --detach "$W" HEAD >/dev/null 2>&1 || exit 3
cd "$W"; export CARGO_TARGET_DIR=$W/target
FEAT=""; [ "$ID" = "C20" ] && FEAT="--features serde"
cp "$D/demo.rs" tests/demo_$ID.rs
R="$(basename "$D")"
cargo test --offline $FEAT --test demo_$ID > demo_without.log 2>&1; R="$R demo_without_patch_exit=$?"
[ "$ID" = "C11" ] && { cargo test --offline --no-default-features --features math_funcs --test demo_$ID > demo_without_ns.log 2>&1; R="$R demo_without_patch_nostd_exit=$?"; }
git apply "$D/patch.diff" || R="$R PATCH_DOES_NOT_APPLY"
cargo test --offline $FEAT --test demo_$ID > demo_with.log 2>&1; R="$R demo_with_patch_exit=$?"
[ "$ID" = "C11" ] && { cargo test --offline --no-default-features --features math_funcs --test demo_$ID > demo_with_ns.log 2>&1; R="$R demo_with_patch_nostd_exit=$?"; }
rm tests/demo_$ID.rs
for k in 1 2 3; do cargo test --offline > suite$k.log 2>&1; R="$R suite_run${k}_exit=$?"; done
[ "$ID" = "C20" ] && { cargo test --offline --features serde > suite_serde.log 2>&1; R="$R suite_serde_exit=$?"; }
R="$R tests_passed=$(grep -h '^test result' suite3.log | awk '{s+=$4} END {print s}')"
echo "$R"
cd /; git -C /repo worktree remove --force "$W"; rm -rf "$(dirname "$W")"
