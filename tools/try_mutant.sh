#!/bin/bash
# usage: tools/try_mutant.sh <patch.diff> <tier> <ID>...   — apply a seeded change to /repo, run the checks, undo it.
set -u
PATCH=$(readlink -f "$1"); TIER=$2; shift 2
cd /verif
if [ -n "$(git -C /repo status --porcelain -- src Cargo.toml)" ]; then echo "refusing: /repo has uncommitted changes"; exit 3; fi
git -C /repo apply "$PATCH" || { echo "patch does not apply"; exit 3; }
trap 'git -C /repo checkout -- . ' EXIT
mkdir -p /verif/target/mut_evidence
for ID in "$@"; do
    cp -f /verif/evidence/$ID.json /verif/target/mut_evidence/$ID.keep 2>/dev/null
    OUT=$(./check $ID --tier $TIER 2>/verif/target/mut_evidence/$ID.stderr); RC=$?
    echo "== $ID tier=$TIER exit=$RC :: $(echo "$OUT" | grep -E '^(VIOLATION|KNOWN-FINDING)' | head -3 | tr '\n' ' ')"
    grep -E "first violations|observed=|expected=" /verif/target/mut_evidence/$ID.stderr | head -3
    # restore the evidence of the unchanged tree
    [ -f /verif/target/mut_evidence/$ID.keep ] && mv -f /verif/target/mut_evidence/$ID.keep /verif/evidence/$ID.json
done
