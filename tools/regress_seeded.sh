#!/bin/bash
# Re-run every seeded change against the quick tier of the checks listed in its meta.json.
# Prints one line per (change, check); exit 1 if any change is no longer caught by any of its checks.
cd /verif
FAIL=0
for d in seeded/*/; do
  id=$(basename $d)
  checks=$(python3 -c "import json;print(' '.join(json.load(open('$d/meta.json'))['checks_run']['caught_by_quick_tier']))")
  out=$(tools/try_mutant.sh $d/patch.diff quick $checks 2>&1 | grep '^==')
  echo "$out" | sed "s/^/$id /" | cut -c1-110
  echo "$out" | grep -q "exit=1" || { echo "$id NOT CAUGHT"; FAIL=1; }
done
exit $FAIL
