#!/bin/bash
# Every fix: commit reverse-applied must make the check that found the defect fail again.
cd /verif
declare -A OWNER=( [2ae1e0c]="C06" [32e8a56]="C09 C01" [b6a01c4]="C09" [d2e10cb]="C01" [67084c1]="C13" [95d6236]="C13" [4cf0b8a]="C14 C18" [29ce560]="C15" [059a8ae]="C15" [4134e6a]="C18" [4987a3b]="C18" [648dabe]="C15" [dcf8b25]="C16" )
FAIL=0
for c in 2ae1e0c 32e8a56 b6a01c4 d2e10cb 67084c1 95d6236 4cf0b8a 29ce560 059a8ae 4134e6a 4987a3b 648dabe dcf8b25; do
  out=$(tools/try_mutant.sh findings/revert_$c.diff quick ${OWNER[$c]} 2>&1 | grep -E '^==|VIOLATION-KIND' | cut -c1-160)
  echo "--- revert $c"; echo "$out"
  echo "$out" | grep -q "exit=1" || { echo "$c NOT DETECTED"; FAIL=1; }
done
exit $FAIL
